#!/usr/bin/env python3
"""eval_seeded.py <seeded-dir> [PROP ...]
Applies /verif/seeded/<dir>/patch.diff to /repo, runs the quick checks of the given properties
(default: the property the change was seeded for), records which checks report a VIOLATION into
meta.json, and restores /repo.  Never commits anything in /repo."""
import json, os, subprocess, sys, time
d = sys.argv[1].rstrip("/")
d = d if os.path.isabs(d) else os.path.join("/verif/seeded", d)
meta = json.load(open(os.path.join(d, "meta.json")))
props = sys.argv[2:] or [meta["property"]]
st = subprocess.run(["git", "-C", "/repo", "status", "--porcelain", "--", "src", "Cargo.toml"], capture_output=True, text=True).stdout
if st.strip():
    sys.exit("refusing: /repo has uncommitted changes:\n" + st)
subprocess.run(["git", "-C", "/repo", "apply", os.path.join(d, "patch.diff")], check=True)
res = {}
try:
    for p in props:
        t0 = time.time()
        r = subprocess.run(["./check", p, "--tier", "quick"], cwd="/verif", capture_output=True, text=True)
        viol = [l for l in r.stdout.splitlines() if l.startswith("VIOLATION")]
        res[p] = dict(rc=r.returncode, violations=viol, wall_s=round(time.time() - t0, 1),
                      undecided=[l[:300] for l in r.stderr.splitlines() if l.startswith("UNDECIDED")][:5])
        print(os.path.basename(d), p, "rc", r.returncode, viol[:3], res[p]["undecided"][:2])
finally:
    subprocess.run(["git", "-C", "/repo", "checkout", "--", "."], check=True)
meta.setdefault("evaluations", []).append(dict(at=time.strftime("%Y-%m-%dT%H:%M:%S"), checks=res))
meta["detected_by"] = sorted(set((meta.get("detected_by") or []) + [p for p, v in res.items() if v["rc"] == 1]))
json.dump(meta, open(os.path.join(d, "meta.json"), "w"), indent=1)
