#!/usr/bin/env python3
"""par_eval.py [-j N] [--jobs-per-check K] [--all-props] <seeded-id> ...
Development aid (not registered): evaluates seeded changes in parallel WITHOUT touching /repo.
For each id: a scratch git worktree of /repo's HEAD under /tmp/ev/<id>/repo gets seeded/<id>/patch.diff applied,
a copy of /verif (without build output) under /tmp/ev/<id>/verif has its Kani crate pointed at that worktree,
and that copy's ./check runs the quick check of the property the change was seeded for (VERIF_REPO=<worktree>).
Results (rc, VIOLATION lines, wall time) are appended to seeded/<id>/meta.json; the scratch directory and its
worktree are removed afterwards.  The registered checks themselves always run on /repo."""
import concurrent.futures as cf
import json, os, shutil, subprocess, sys, time

VERIF = "/verif"
EV = "/tmp/ev"


def sh(cmd, **kw):
    return subprocess.run(cmd, capture_output=True, text=True, **kw)


def evaluate(sid, jobs, props=None):
    d = os.path.join(EV, sid)
    sh(["git", "-C", "/repo", "worktree", "remove", "--force", d + "/repo"])
    shutil.rmtree(d, ignore_errors=True)
    os.makedirs(d)
    meta_p = os.path.join(VERIF, "seeded", sid, "meta.json")
    meta = json.load(open(meta_p))
    props = props or [meta["property"]]
    r = sh(["git", "-C", "/repo", "worktree", "add", "--detach", d + "/repo", "HEAD"])
    if r.returncode:
        return sid, dict(error="worktree: " + r.stderr[-300:])
    r = sh(["git", "-C", d + "/repo", "apply", os.path.join(VERIF, "seeded", sid, "patch.diff")])
    if r.returncode:
        return sid, dict(error="patch does not apply: " + r.stderr[-300:])
    sh(["rsync", "-a", "--exclude", "kani/target", "--exclude", "replay/target", "--exclude", ".gen", "--exclude", ".git",
        "--exclude", "seeded", "--exclude", "findings", "--exclude", "evidence", "--exclude", "replays", VERIF + "/", d + "/verif/"])
    for f in ("kani/Cargo.toml",):
        p = os.path.join(d, "verif", f)
        s = open(p).read().replace('path = "/repo"', f'path = "{d}/repo"')
        open(p, "w").write(s)
    env = dict(os.environ, VERIF_REPO=d + "/repo", CARGO_NET_OFFLINE="true")
    res = {}
    for p in props:
        t0 = time.time()
        r = sh(["./check", p, "--tier", "quick", "--jobs", str(jobs)], cwd=d + "/verif", env=env)
        viol = [l.replace(d + "/verif", "/verif") for l in r.stdout.splitlines() if l.startswith("VIOLATION")]
        res[p] = dict(rc=r.returncode, violations=viol, wall_s=round(time.time() - t0, 1),
                      undecided=[l[:300] for l in (r.stderr + r.stdout).splitlines() if l.startswith("UNDECIDED")][:5])
        if r.returncode not in (0, 1):
            res[p]["tail"] = (r.stdout + r.stderr)[-600:]
    meta.setdefault("evaluations", []).append(dict(at=time.strftime("%Y-%m-%dT%H:%M:%S"), how="tools/par_eval.py (scratch worktree)",
                                                   verif_commit=sh(["git", "-C", VERIF, "rev-parse", "--short", "HEAD"]).stdout.strip(), checks=res))
    meta["detected_by"] = sorted(set((meta.get("detected_by") or []) + [p for p, v in res.items() if v["rc"] == 1]))
    json.dump(meta, open(meta_p, "w"), indent=1)
    sh(["git", "-C", "/repo", "worktree", "remove", "--force", d + "/repo"])
    shutil.rmtree(d, ignore_errors=True)
    return sid, res


def main():
    a = sys.argv[1:]
    n, jobs, allp = 4, 5, False
    ids = []
    while a:
        x = a.pop(0)
        if x == "-j":
            n = int(a.pop(0))
        elif x == "--jobs-per-check":
            jobs = int(a.pop(0))
        elif x == "--all-props":
            allp = True
        else:
            ids.append(x)
    os.makedirs(EV, exist_ok=True)
    props = ["C%02d" % i for i in range(1, 21)] if allp else None
    with cf.ThreadPoolExecutor(n) as ex:
        for sid, res in ex.map(lambda s: evaluate(s, jobs, props), ids):
            print(sid, json.dumps({p: (v.get("rc"), len(v.get("violations", [])), v.get("wall_s"), v.get("undecided", [])[:1]) if isinstance(v, dict) else v
                                   for p, v in (res.items() if isinstance(res, dict) else [])}), flush=True)


if __name__ == "__main__":
    main()
