#!/bin/sh
# evaluates every seeded change against the quick check of the property it was seeded for
cd /verif
for d in seeded/*/; do
  n=$(basename $d)
  [ -n "$1" ] && case "$n" in $1) ;; *) continue;; esac
  python3 tools/eval_seeded.py $n 2>&1 | tail -3
done
