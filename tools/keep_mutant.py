#!/usr/bin/env python3
"""keep_mutant.py PROP VARIANT [SRC_ID AS_LETTER] -- copies a confirmed seeded change into /verif/seeded/<PROP>-<letter>/
(round 2: keep_mutant.py C04 A C04r2 c  takes /tmp/wt/out/C04r2/A and stores it as seeded/C04-c)"""
import json, os, re, shutil, sys
prop, var = sys.argv[1], sys.argv[2]
src_id = sys.argv[3] if len(sys.argv) > 3 else prop
letter = sys.argv[4] if len(sys.argv) > 4 else var.lower()
src = f"/tmp/wt/out/{src_id}/{var}"
dst = f"/verif/seeded/{prop}-{letter}"
os.makedirs(dst, exist_ok=True)
for f in ("patch.diff", "demo.rs", "notes.md"):
    shutil.copy(os.path.join(src, f), os.path.join(dst, f))
notes = open(os.path.join(src, "notes.md")).read()
conf = {}
for k, f in (("demo_without_change", "confirm_demo_clean.log"), ("demo_with_change", "confirm_demo_mutant.log"), ("suite_with_change", "confirm_suite_mutant.log")):
    t = open(os.path.join(src, f)).read()
    res = re.findall(r"test result: (\w+)\. (\d+) passed; (\d+) failed", t)
    conf[k] = dict(results=[f"{a} {b} passed {c} failed" for a, b, c in res][:12])
files = sorted(set(re.findall(r"^\+\+\+ b/(\S+)", open(os.path.join(src, "patch.diff")).read(), re.M)))
meta = dict(property=prop, variant=letter, files_changed=files,
            needs_to_manifest=notes.strip().splitlines()[:12],
            confirmed_by=["tools/confirm_mutant.sh %s %s (scratch worktree /tmp/wt/%s): demo passes on the clean tree, demo fails with the change, existing suite (cargo test --workspace --lib --tests --benches --offline) passes with the change" % (src_id, var, src_id)],
            confirmation=conf, source="independent sub-agent given only the property text and a scratch worktree",
            detected_by=None)
json.dump(meta, open(os.path.join(dst, "meta.json"), "w"), indent=1)
print("kept", dst, files)
