#!/usr/bin/env python3
"""benign_eval.py [-j N] [--jobs-per-check K] [name ...]
Development aid: applies each semantics-preserving edit under /verif/benign/<name>.diff in a scratch worktree
(as tools/par_eval.py does) and runs the quick checks whose units read the edited file (benign/props.json; --all-props: all twenty).  A check may exit 0 or, where the edit moves
text an extraction rule is anchored at, 2 (undecided); exit 1 would be a false alarm.  Results: benign/results.json."""
import concurrent.futures as cf
import glob, json, os, shutil, subprocess, sys, time
sys.path.insert(0, os.path.dirname(os.path.abspath(__file__)))
from par_eval import EV, VERIF, sh

PROPS = ["C%02d" % i for i in range(1, 21)]
ALL = "--all-props" in sys.argv   # default: the checks whose units read the edited file (benign/props.json)


def evaluate(name, jobs):
    d = os.path.join(EV, "ben-" + name)
    sh(["git", "-C", "/repo", "worktree", "remove", "--force", d + "/repo"])
    shutil.rmtree(d, ignore_errors=True)
    os.makedirs(d)
    sh(["git", "-C", "/repo", "worktree", "add", "--detach", d + "/repo", "HEAD"])
    r = sh(["git", "-C", d + "/repo", "apply", os.path.join(VERIF, "benign", name + ".diff")])
    if r.returncode:
        return name, dict(error="patch does not apply: " + r.stderr[-300:])
    sh(["rsync", "-a", "--exclude", "kani/target", "--exclude", "replay/target", "--exclude", ".gen", "--exclude", ".git",
        "--exclude", "seeded", "--exclude", "findings", "--exclude", "evidence", "--exclude", "replays", VERIF + "/", d + "/verif/"])
    p = os.path.join(d, "verif", "kani/Cargo.toml")
    txt = open(p).read().replace('path = "/repo"', f'path = "{d}/repo"')
    open(p, "w").write(txt)
    env = dict(os.environ, VERIF_REPO=d + "/repo", CARGO_NET_OFFLINE="true")
    res = {}
    sel = json.load(open(os.path.join(VERIF, "benign", "props.json"))).get(name) if not ALL else None
    for pr in (sel or PROPS):
        t0 = time.time()
        r = sh(["./check", pr, "--tier", "quick", "--jobs", str(jobs)], cwd=d + "/verif", env=env)
        res[pr] = dict(rc=r.returncode, wall_s=round(time.time() - t0, 1),
                       violations=[l.replace(d + "/verif", "/verif") for l in r.stdout.splitlines() if l.startswith("VIOLATION")],
                       undecided=[l[:200] for l in (r.stderr + r.stdout).splitlines() if l.startswith("UNDECIDED")][:3],
                       tail=(r.stdout + r.stderr)[-1500:] if r.returncode == 2 else "")
    sh(["git", "-C", "/repo", "worktree", "remove", "--force", d + "/repo"])
    shutil.rmtree(d, ignore_errors=True)
    return name, res


def main():
    a = sys.argv[1:]
    n, jobs, names = 3, 5, []
    while a:
        x = a.pop(0)
        if x == "-j": n = int(a.pop(0))
        elif x == "--jobs-per-check": jobs = int(a.pop(0))
        elif x == "--all-props": pass
        else: names.append(x)
    names = names or sorted(os.path.basename(f)[:-5] for f in glob.glob(os.path.join(VERIF, "benign", "*.diff")))
    os.makedirs(EV, exist_ok=True)
    outp = os.path.join(VERIF, "benign", "results.json")
    allres = json.load(open(outp)) if os.path.exists(outp) else {}
    with cf.ThreadPoolExecutor(n) as ex:
        for name, res in ex.map(lambda s: evaluate(s, jobs), names):
            allres[name] = dict(at=time.strftime("%Y-%m-%dT%H:%M:%S"), verif_commit=sh(["git", "-C", VERIF, "rev-parse", "--short", "HEAD"]).stdout.strip(), checks=res)
            json.dump(allres, open(outp, "w"), indent=1)
            print(name, {p: v["rc"] for p, v in res.items()} if "error" not in res else res, flush=True)


if __name__ == "__main__":
    main()
