#!/bin/sh
# usage: confirm_mutant.sh <PROP> <A|B>
# Confirms in the scratch worktree /tmp/wt/<PROP> that the seeded change (a) compiles and passes the
# existing suite, (b) makes the demonstration fail, (c) the demonstration passes without it.
P=$1; V=$2; WT=/tmp/wt/$P; OUT=/tmp/wt/out/$P/$V
lc=$(echo $V | tr 'A-Z' 'a-z')
cd $WT || exit 2
git checkout -q -- . ; rm -f tests/demo_*.rs
cp $OUT/demo.rs tests/demo_${P}_${lc}.rs
export CARGO_NET_OFFLINE=true
echo "== demo WITHOUT mutant"
cargo test --offline --test demo_${P}_${lc} > $OUT/confirm_demo_clean.log 2>&1; rc_clean=$?
git apply $OUT/patch.diff || { echo "patch does not apply"; exit 2; }
echo "== demo WITH mutant"
cargo test --offline --test demo_${P}_${lc} > $OUT/confirm_demo_mutant.log 2>&1; rc_mut=$?
rm -f tests/demo_${P}_${lc}.rs
echo "== suite WITH mutant"
cargo test --offline --workspace --no-fail-fast --lib --tests --benches > $OUT/confirm_suite_mutant.log 2>&1; rc_suite=$?
git checkout -q -- .
echo "RESULT $P/$V demo_clean_rc=$rc_clean demo_mutant_rc=$rc_mut suite_mutant_rc=$rc_suite"
if [ $rc_clean -eq 0 ] && [ $rc_mut -ne 0 ] && [ $rc_suite -eq 0 ]; then echo "CONFIRMED $P/$V"; else echo "NOT-CONFIRMED $P/$V"; fi
