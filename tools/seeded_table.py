#!/usr/bin/env python3
"""Prints the markdown table of seeded changes and which checks reported them (from seeded/*/meta.json)."""
import glob, json, os, re
rows = []
for mp in sorted(glob.glob("/verif/seeded/*/meta.json")):
    m = json.load(open(mp))
    name = os.path.basename(os.path.dirname(mp))
    notes = " ".join(m.get("needs_to_manifest", [])[:3])
    notes = re.sub(r"\s+", " ", notes)[:160]
    det = m.get("detected_by") or []
    ev = (m.get("evaluations") or [{}])[-1].get("checks", {})
    units = []
    for p, r in ev.items():
        for v in r.get("violations", []):
            u = re.search(r"replays/[A-Z0-9]+-(?:kani|verus)-([^ ]+?)\.json", v)
            if u:
                units.append(u.group(1))
    status = ", ".join(det) if det else ("**missed**" if ev else "not evaluated")
    rows.append(f"| {name} | {', '.join(m['files_changed'])} | {notes} | {status} | {', '.join(sorted(set(units)))[:200]} |")
print("| seeded change | file | what it needs | reported by check | failing units |")
print("|---|---|---|---|---|")
print("\n".join(rows))
