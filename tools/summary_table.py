#!/usr/bin/env python3
"""Prints a per-property summary of registered units (for DESIGN.md §0.5)."""
import sys
sys.path.insert(0, "/verif")
from vk.registry import KANI_UNITS, LEMMA_UNITS, PROPS, VERUS_UNITS
print("| id | level | Verus units (owned obligations) | lemma files | Kani quick (complete / bounded) | Kani thorough adds |")
print("|---|---|---|---|---|---|")
for p in sorted(PROPS):
    vu = []
    for u in VERUS_UNITS:
        own = [f for f, o in u["obligations"].items() if p in o.get("own", [])]
        dep = [f for f, o in u["obligations"].items() if p in o.get("dep", [])]
        if own:
            vu.append(f"{u['name']}({', '.join(own)})x{len(u['widths'])}")
        elif dep:
            vu.append(f"{u['name']}[dep]")
    lf = [l["file"].replace("lemmas_", "").replace(".rs", "") for l in LEMMA_UNITS if p in l["props"]]
    q = [k for k in KANI_UNITS if p in k["props"] and k["tier"] == "quick"]
    t = [k for k in KANI_UNITS if p in k["props"] and k["tier"] == "thorough"]
    qc = sum(1 for k in q if k["kind"] == "complete"); qb = len(q) - qc
    print(f"| {p} | {PROPS[p]['level']} | {'; '.join(vu) or '-'} | {', '.join(lf) or '-'} | {qc} / {qb} | {len(t)} |")
