#!/usr/bin/env python3
"""Regenerates the generated tables of DESIGN.md (between <!--X--> ... <!--/X--> markers) from seeded/*/meta.json,
benign/results.json and vk/registry.py."""
import json, os, re, subprocess
V = "/verif"
def run(cmd): return subprocess.run(cmd, capture_output=True, text=True, cwd=V).stdout.strip()
tables = {"SEEDED_TABLE": run(["python3", "tools/seeded_table.py"]), "SUMMARY_TABLE": run(["python3", "tools/summary_table.py"])}
bp = os.path.join(V, "benign", "results.json")
if os.path.exists(bp):
    d = json.load(open(bp))
    rows = ["| edit | checks run (exit code) | false alarms |", "|---|---|---|"]
    for k in sorted(d):
        c = d[k]["checks"]
        rows.append(f"| {k} | " + ", ".join(f"{p}:{v['rc']}" for p, v in c.items()) + f" | {sum(1 for v in c.values() if v['rc'] == 1)} |")
    tables["BENIGN_TABLE"] = "\n".join(rows)
p = os.path.join(V, "DESIGN.md")
s = open(p).read()
for k, t in tables.items():
    s = re.sub(r"<!--%s-->.*?<!--/%s-->" % (k, k), lambda m: "<!--%s-->\n%s\n<!--/%s-->" % (k, t, k), s, flags=re.S)
open(p, "w").write(s)
print("DESIGN.md tables regenerated:", ", ".join(tables))
