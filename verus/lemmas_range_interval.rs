// Layer A: range coder as exact interval arithmetic (hand written; no code from /repo).
//   lemma_nested (C02/C11): if X lies in the interval after a step it lay in the interval before
//   lemma_coupling (C02/C07): a decoder coupled to the encoder's interval reproduces the encoder's symbol and stays coupled
use vstd::prelude::*;
use vstd::arithmetic::power2::*;
use vstd::arithmetic::div_mod::*;
use vstd::arithmetic::mul::*;

verus! {

pub struct Cfg { pub wb: nat, pub sb: nat }
pub open spec fn cfg_ok(c: Cfg, prec: nat) -> bool { c.wb >= 1 && prec >= 1 && prec <= c.wb && c.sb >= c.wb + prec && c.sb >= 2 * c.wb }
pub open spec fn entry_ok(cum: nat, p: nat, prec: nat) -> bool { p >= 1 && cum + p <= pow2(prec) }

// abstract encoder interval [l, l+r) at scale 2^-(wb*n + sb); n = number of renormalisations so far
pub struct Enc { pub l: nat, pub r: nat, pub n: nat }
pub open spec fn enc_inv(c: Cfg, s: Enc) -> bool { pow2((c.sb - c.wb) as nat) <= s.r < pow2(c.sb) }
pub open spec fn enc_step(c: Cfg, s: Enc, cum: nat, p: nat, prec: nat) -> Enc {
    let scale = s.r / pow2(prec);
    let l1 = s.l + scale * cum; let r1 = scale * p;
    if r1 < pow2((c.sb - c.wb) as nat) { Enc { l: l1 * pow2(c.wb), r: r1 * pow2(c.wb), n: s.n + 1 } } else { Enc { l: l1, r: r1, n: s.n } }
}

// value of the first m words of the data, zero padded
pub open spec fn pv(c: Cfg, d: Seq<nat>, m: nat) -> nat decreases m {
    if m == 0 { 0 } else { pv(c, d, (m - 1) as nat) * pow2(c.wb) + (if m - 1 < d.len() { d[m - 1] } else { 0 }) }
}
pub open spec fn words_ok(c: Cfg, d: Seq<nat>) -> bool { forall|i: int| 0 <= i < d.len() ==> d[i] < pow2(c.wb) }
pub open spec fn nwin(c: Cfg) -> nat { c.sb / c.wb }
// X (the data) lies in the encoder's interval
pub open spec fn contains(c: Cfg, s: Enc, d: Seq<nat>) -> bool { s.l <= pv(c, d, s.n + nwin(c)) < s.l + s.r }

// abstract decoder (machine-width values)
pub struct Dec { pub lower: nat, pub range: nat, pub point: nat, pub n: nat }
pub open spec fn coupled(c: Cfg, s: Enc, t: Dec, d: Seq<nat>) -> bool {
    let m = pow2(c.sb);
    t.range == s.r && t.n == s.n && t.lower == s.l % m && t.point == pv(c, d, s.n + nwin(c)) % m
}
pub open spec fn dec_quantile(c: Cfg, t: Dec, prec: nat) -> nat {
    let m = pow2(c.sb);
    (((t.point + m - t.lower) as nat) % m) / (t.range / pow2(prec))
}
pub open spec fn dec_step(c: Cfg, t: Dec, cum: nat, p: nat, prec: nat, next_word: nat) -> Dec {
    let m = pow2(c.sb);
    let scale = t.range / pow2(prec);
    let lower1 = (t.lower + scale * cum) % m; let r1 = scale * p;
    if r1 < pow2((c.sb - c.wb) as nat) {
        Dec { lower: (lower1 * pow2(c.wb)) % m, range: r1 * pow2(c.wb), point: (t.point * pow2(c.wb)) % m + next_word, n: t.n + 1 }
    } else { Dec { lower: lower1, range: r1, point: t.point, n: t.n } }
}

proof fn lemma_div_bounds(x: nat, d: nat, lo: nat, hi: nat)
    requires d > 0, d * lo <= x < d * hi
    ensures lo <= x / d < hi
{
    lemma_fundamental_div_mod(x as int, d as int);
    lemma_mod_bound(x as int, d as int);
    if x / d < lo { lemma_mul_inequality((x / d + 1) as int, lo as int, d as int); lemma_mul_is_distributive_add_other_way(d as int, (x/d) as int, 1); lemma_mul_is_commutative(d as int, lo as int); lemma_mul_is_commutative(d as int, (x/d) as int);}
    if x / d >= hi { lemma_mul_inequality(hi as int, (x / d) as int, d as int); lemma_mul_is_commutative(d as int, hi as int); lemma_mul_is_commutative(d as int, (x/d) as int);}
}

// the coupling step: decoder reproduces the encoder's symbol and stays coupled
pub proof fn lemma_coupling(c: Cfg, s: Enc, t: Dec, d: Seq<nat>, cum: nat, p: nat, prec: nat)
    requires cfg_ok(c, prec), c.sb % c.wb == 0, enc_inv(c, s), entry_ok(cum, p, prec), words_ok(c, d),
             coupled(c, s, t, d), contains(c, s, d),
             contains(c, enc_step(c, s, cum, p, prec), d),   // X is in the *next* interval (nestedness + seal)
    ensures ({
        let q = dec_quantile(c, t, prec);
        let idx = s.n + nwin(c);
        let w = if idx < d.len() { d[idx as int] } else { 0 };
        &&& cum <= q < cum + p
        &&& q < pow2(prec)
        &&& coupled(c, enc_step(c, s, cum, p, prec), dec_step(c, t, cum, p, prec, w), d)
    })
{
    let m = pow2(c.sb); let W = pow2(c.wb); let P2 = pow2(prec); let th = pow2((c.sb - c.wb) as nat);
    lemma_pow2_pos(c.sb); lemma_pow2_pos(c.wb); lemma_pow2_pos(prec); lemma_pow2_pos((c.sb - c.wb) as nat);
    lemma_pow2_adds((c.sb - c.wb) as nat, c.wb);
    let scale = s.r / P2;
    let idx = s.n + nwin(c);
    let x = pv(c, d, idx);
    let w = if idx < d.len() { d[idx as int] } else { 0 };
    assert(w < W);
    let dd = (x - s.l) as nat;          // 0 <= dd < r < m
    // scale >= 1
    assert(P2 <= th) by { if prec < c.sb - c.wb { lemma_pow2_strictly_increases(prec, (c.sb - c.wb) as nat); } }
    assert(scale >= 1) by {
        lemma_fundamental_div_mod(s.r as int, P2 as int);
        lemma_mod_bound(s.r as int, P2 as int);
        if scale == 0 { assert(P2 * 0 == 0); }
    }
    // (point + m - lower) % m == dd
    assert(((t.point + m - t.lower) as nat) % m == dd) by {
        lemma_fundamental_div_mod(x as int, m as int);
        lemma_fundamental_div_mod(s.l as int, m as int);
        lemma_mod_bound(x as int, m as int); lemma_mod_bound(s.l as int, m as int);
        // point + m - lower = dd + m*(1 - x/m + l/m)
        let kk = 1 - (x / m) as int + (s.l / m) as int;
        assert((t.point + m - t.lower) as int == dd as int + m as int * kk) by {
            lemma_mul_is_distributive_add(m as int, 1 - (x / m) as int, (s.l / m) as int);
            lemma_mul_is_distributive_sub(m as int, 1, (x / m) as int);
        }
        lemma_mod_multiples_vanish(kk, dd as int, m as int);
        lemma_small_mod(dd, m);
    }
    let nxt = enc_step(c, s, cum, p, prec);
    let l1 = s.l + scale * cum; let r1 = scale * p;
    // l1 <= x < l1 + r1
    if r1 < th {
        // next interval scaled by W at index idx+1 : pv(idx+1) = x*W + w
        assert(pv(c, d, idx + 1) == x * W + w);
        assert(l1 <= x) by { if x < l1 { lemma_mul_inequality((x + 1) as int, l1 as int, W as int); lemma_mul_is_distributive_add_other_way(W as int, x as int, 1); } }
        assert(x < l1 + r1) by { if x >= l1 + r1 { lemma_mul_inequality((l1 + r1) as int, x as int, W as int); lemma_mul_is_distributive_add_other_way(W as int, l1 as int, r1 as int); } }
    }
    assert(scale * cum <= dd < scale * (cum + p)) by { lemma_mul_is_distributive_add(scale as int, cum as int, p as int); }
    lemma_div_bounds(dd, scale, cum, cum + p);
    let q = dec_quantile(c, t, prec);
    assert(q == dd / scale);
    // lower
    let tn = dec_step(c, t, cum, p, prec, w);
    assert((t.lower + scale * cum) % m == l1 % m) by {
        lemma_add_mod_noop(s.l as int, (scale * cum) as int, m as int);
        lemma_add_mod_noop(t.lower as int, (scale * cum) as int, m as int);
        lemma_mod_twice(s.l as int, m as int);
    }
    if r1 < th {
        assert(((l1 % m) * W) % m == (l1 * W) % m) by { lemma_mul_mod_noop_left(l1 as int, W as int, m as int); }
        // point
        let b = (x * W) % m;
        assert(((x % m) * W) % m == b) by { lemma_mul_mod_noop_left(x as int, W as int, m as int); }
        // b == W * (x % th)
        assert(b == W * (x % th)) by {
            lemma_truncate_middle(x as int, W as int, th as int);
            lemma_mul_is_commutative(W as int, x as int);
            lemma_mul_is_commutative(W as int, th as int);
        }
        lemma_mod_bound(x as int, th as int);
        assert(b + w < m) by {
            lemma_mul_inequality((x % th + 1) as int, th as int, W as int);
            lemma_mul_is_distributive_add_other_way(W as int, (x % th) as int, 1);
            lemma_mul_is_commutative(W as int, (x % th) as int);
        }
        assert((x * W + w) % m == b + w) by {
            lemma_fundamental_div_mod((x * W) as int, m as int);
            lemma_mod_multiples_vanish(((x * W) / m) as int, (b + w) as int, m as int);
            lemma_small_mod((b + w) as nat, m);
            lemma_mul_is_commutative(m as int, ((x * W) / m) as int);
        }
        assert(nwin(c) + s.n + 1 == nxt.n + nwin(c));
    }

}


// nestedness: if X lies in the interval after the step, it lay in the interval before it
pub proof fn lemma_nested(c: Cfg, s: Enc, d: Seq<nat>, cum: nat, p: nat, prec: nat)
    requires cfg_ok(c, prec), enc_inv(c, s), entry_ok(cum, p, prec), words_ok(c, d),
             contains(c, enc_step(c, s, cum, p, prec), d),
    ensures contains(c, s, d)
{
    let W = pow2(c.wb); let P2 = pow2(prec); let th = pow2((c.sb - c.wb) as nat);
    lemma_pow2_pos(c.wb); lemma_pow2_pos(prec);
    let scale = s.r / P2;
    let idx = s.n + nwin(c);
    let x = pv(c, d, idx);
    let w = if idx < d.len() { d[idx as int] } else { 0 };
    let l1 = s.l + scale * cum; let r1 = scale * p;
    if r1 < th {
        assert(pv(c, d, idx + 1) == x * W + w);
        assert(nwin(c) + s.n + 1 == enc_step(c, s, cum, p, prec).n + nwin(c));
        assert(l1 <= x) by { if x < l1 { lemma_mul_inequality((x + 1) as int, l1 as int, W as int); lemma_mul_is_distributive_add_other_way(W as int, x as int, 1); } }
        assert(x < l1 + r1) by { if x >= l1 + r1 { lemma_mul_inequality((l1 + r1) as int, x as int, W as int); lemma_mul_is_distributive_add_other_way(W as int, l1 as int, r1 as int); } }
    }
    // scale*(cum+p) <= scale*P2 <= r
    assert(scale * cum + scale * p <= s.r) by {
        lemma_mul_is_distributive_add(scale as int, cum as int, p as int);
        lemma_mul_inequality((cum + p) as int, P2 as int, scale as int);
        lemma_mul_is_commutative(scale as int, (cum + p) as int); lemma_mul_is_commutative(scale as int, P2 as int);
        lemma_fundamental_div_mod(s.r as int, P2 as int); lemma_mod_bound(s.r as int, P2 as int);
        lemma_mul_is_commutative(scale as int, P2 as int);
    }
}


// ---------- vacuity probes (must FAIL) ----------
proof fn lemma_coupling_reach(c: Cfg, s: Enc, t: Dec, d: Seq<nat>, cum: nat, p: nat, prec: nat)
    requires cfg_ok(c, prec), c.sb % c.wb == 0, enc_inv(c, s), entry_ok(cum, p, prec), words_ok(c, d),
             coupled(c, s, t, d), contains(c, s, d), contains(c, enc_step(c, s, cum, p, prec), d),
    ensures false
{}
proof fn lemma_nested_reach(c: Cfg, s: Enc, d: Seq<nat>, cum: nat, p: nat, prec: nat)
    requires cfg_ok(c, prec), enc_inv(c, s), entry_ok(cum, p, prec), words_ok(c, d), contains(c, enc_step(c, s, cum, p, prec), d),
    ensures false
{}
} // verus!
fn main() {}
