// Layer A: range coder as exact interval arithmetic (hand written; no code from /repo).
//   lemma_nested (C02/C11): if X lies in the interval after a step it lay in the interval before
//   lemma_coupling (C02/C07): a decoder coupled to the encoder's interval reproduces the encoder's symbol and stays coupled
use vstd::prelude::*;
use vstd::arithmetic::power2::*;
use vstd::arithmetic::div_mod::*;
use vstd::arithmetic::mul::*;

verus! {

//@INCLUDE frag_range_interval.rs

proof fn lemma_div_bounds(x: nat, d: nat, lo: nat, hi: nat)
    requires d > 0, d * lo <= x < d * hi
    ensures lo <= x / d < hi
{
    lemma_fundamental_div_mod(x as int, d as int);
    lemma_mod_bound(x as int, d as int);
    if x / d < lo { lemma_mul_inequality((x / d + 1) as int, lo as int, d as int); lemma_mul_is_distributive_add_other_way(d as int, (x/d) as int, 1); lemma_mul_is_commutative(d as int, lo as int); lemma_mul_is_commutative(d as int, (x/d) as int);}
    if x / d >= hi { lemma_mul_inequality(hi as int, (x / d) as int, d as int); lemma_mul_is_commutative(d as int, hi as int); lemma_mul_is_commutative(d as int, (x/d) as int);}
}

// the coupling step: decoder reproduces the encoder's symbol and stays coupled
pub proof fn lemma_coupling(c: Cfg, s: Enc, t: Dec, d: Seq<nat>, cum: nat, p: nat, prec: nat)
    requires cfg_ok(c, prec), c.sb % c.wb == 0, enc_inv(c, s), entry_ok(cum, p, prec), words_ok(c, d),
             coupled(c, s, t, d), contains(c, s, d),
             contains(c, enc_step(c, s, cum, p, prec), d),   // X is in the *next* interval (nestedness + seal)
    ensures ({
        let q = dec_quantile(c, t, prec);
        let idx = s.n + nwin(c);
        let w = if idx < d.len() { d[idx as int] } else { 0 };
        &&& cum <= q < cum + p
        &&& q < pow2(prec)
        &&& coupled(c, enc_step(c, s, cum, p, prec), dec_step(c, t, cum, p, prec, w), d)
    })
{
    let m = pow2(c.sb); let W = pow2(c.wb); let P2 = pow2(prec); let th = pow2((c.sb - c.wb) as nat);
    lemma_pow2_pos(c.sb); lemma_pow2_pos(c.wb); lemma_pow2_pos(prec); lemma_pow2_pos((c.sb - c.wb) as nat);
    lemma_pow2_adds((c.sb - c.wb) as nat, c.wb);
    let scale = s.r / P2;
    let idx = s.n + nwin(c);
    let x = pv(c, d, idx);
    let w = if idx < d.len() { d[idx as int] } else { 0 };
    assert(w < W);
    let dd = (x - s.l) as nat;          // 0 <= dd < r < m
    // scale >= 1
    assert(P2 <= th) by { if prec < c.sb - c.wb { lemma_pow2_strictly_increases(prec, (c.sb - c.wb) as nat); } }
    assert(scale >= 1) by {
        lemma_fundamental_div_mod(s.r as int, P2 as int);
        lemma_mod_bound(s.r as int, P2 as int);
        if scale == 0 { assert(P2 * 0 == 0); }
    }
    // (point + m - lower) % m == dd
    assert(((t.point + m - t.lower) as nat) % m == dd) by {
        lemma_fundamental_div_mod(x as int, m as int);
        lemma_fundamental_div_mod(s.l as int, m as int);
        lemma_mod_bound(x as int, m as int); lemma_mod_bound(s.l as int, m as int);
        // point + m - lower = dd + m*(1 - x/m + l/m)
        let kk = 1 - (x / m) as int + (s.l / m) as int;
        assert((t.point + m - t.lower) as int == dd as int + m as int * kk) by {
            lemma_mul_is_distributive_add(m as int, 1 - (x / m) as int, (s.l / m) as int);
            lemma_mul_is_distributive_sub(m as int, 1, (x / m) as int);
        }
        lemma_mod_multiples_vanish(kk, dd as int, m as int);
        lemma_small_mod(dd, m);
    }
    let nxt = enc_step(c, s, cum, p, prec);
    let l1 = s.l + scale * cum; let r1 = scale * p;
    // l1 <= x < l1 + r1
    if r1 < th {
        // next interval scaled by W at index idx+1 : pv(idx+1) = x*W + w
        assert(pv(c, d, idx + 1) == x * W + w);
        assert(l1 <= x) by { if x < l1 { lemma_mul_inequality((x + 1) as int, l1 as int, W as int); lemma_mul_is_distributive_add_other_way(W as int, x as int, 1); } }
        assert(x < l1 + r1) by { if x >= l1 + r1 { lemma_mul_inequality((l1 + r1) as int, x as int, W as int); lemma_mul_is_distributive_add_other_way(W as int, l1 as int, r1 as int); } }
    }
    assert(scale * cum <= dd < scale * (cum + p)) by { lemma_mul_is_distributive_add(scale as int, cum as int, p as int); }
    lemma_div_bounds(dd, scale, cum, cum + p);
    let q = dec_quantile(c, t, prec);
    assert(q == dd / scale);
    // lower
    let tn = dec_step(c, t, cum, p, prec, w);
    assert((t.lower + scale * cum) % m == l1 % m) by {
        lemma_add_mod_noop(s.l as int, (scale * cum) as int, m as int);
        lemma_add_mod_noop(t.lower as int, (scale * cum) as int, m as int);
        lemma_mod_twice(s.l as int, m as int);
    }
    if r1 < th {
        assert(((l1 % m) * W) % m == (l1 * W) % m) by { lemma_mul_mod_noop_left(l1 as int, W as int, m as int); }
        // point
        let b = (x * W) % m;
        assert(((x % m) * W) % m == b) by { lemma_mul_mod_noop_left(x as int, W as int, m as int); }
        // b == W * (x % th)
        assert(b == W * (x % th)) by {
            lemma_truncate_middle(x as int, W as int, th as int);
            lemma_mul_is_commutative(W as int, x as int);
            lemma_mul_is_commutative(W as int, th as int);
        }
        lemma_mod_bound(x as int, th as int);
        assert(b + w < m) by {
            lemma_mul_inequality((x % th + 1) as int, th as int, W as int);
            lemma_mul_is_distributive_add_other_way(W as int, (x % th) as int, 1);
            lemma_mul_is_commutative(W as int, (x % th) as int);
        }
        assert((x * W + w) % m == b + w) by {
            lemma_fundamental_div_mod((x * W) as int, m as int);
            lemma_mod_multiples_vanish(((x * W) / m) as int, (b + w) as int, m as int);
            lemma_small_mod((b + w) as nat, m);
            lemma_mul_is_commutative(m as int, ((x * W) / m) as int);
        }
        assert(nwin(c) + s.n + 1 == nxt.n + nwin(c));
    }

}


// nestedness: if X lies in the interval after the step, it lay in the interval before it
pub proof fn lemma_nested(c: Cfg, s: Enc, d: Seq<nat>, cum: nat, p: nat, prec: nat)
    requires cfg_ok(c, prec), enc_inv(c, s), entry_ok(cum, p, prec), words_ok(c, d),
             contains(c, enc_step(c, s, cum, p, prec), d),
    ensures contains(c, s, d)
{
    let W = pow2(c.wb); let P2 = pow2(prec); let th = pow2((c.sb - c.wb) as nat);
    lemma_pow2_pos(c.wb); lemma_pow2_pos(prec);
    let scale = s.r / P2;
    let idx = s.n + nwin(c);
    let x = pv(c, d, idx);
    let w = if idx < d.len() { d[idx as int] } else { 0 };
    let l1 = s.l + scale * cum; let r1 = scale * p;
    if r1 < th {
        assert(pv(c, d, idx + 1) == x * W + w);
        assert(nwin(c) + s.n + 1 == enc_step(c, s, cum, p, prec).n + nwin(c));
        assert(l1 <= x) by { if x < l1 { lemma_mul_inequality((x + 1) as int, l1 as int, W as int); lemma_mul_is_distributive_add_other_way(W as int, x as int, 1); } }
        assert(x < l1 + r1) by { if x >= l1 + r1 { lemma_mul_inequality((l1 + r1) as int, x as int, W as int); lemma_mul_is_distributive_add_other_way(W as int, l1 as int, r1 as int); } }
    }
    // scale*(cum+p) <= scale*P2 <= r
    assert(scale * cum + scale * p <= s.r) by {
        lemma_mul_is_distributive_add(scale as int, cum as int, p as int);
        lemma_mul_inequality((cum + p) as int, P2 as int, scale as int);
        lemma_mul_is_commutative(scale as int, (cum + p) as int); lemma_mul_is_commutative(scale as int, P2 as int);
        lemma_fundamental_div_mod(s.r as int, P2 as int); lemma_mod_bound(s.r as int, P2 as int);
        lemma_mul_is_commutative(scale as int, P2 as int);
    }
}


// ---------- C02: whole messages of any length ----------
pub struct E { pub cum: nat, pub p: nat, pub prec: nat }
pub open spec fn e_ok(c: Cfg, e: E) -> bool { cfg_ok(c, e.prec) && entry_ok(e.cum, e.p, e.prec) }
pub open spec fn all_ok(c: Cfg, es: Seq<E>) -> bool { forall|i: int| 0 <= i < es.len() ==> e_ok(c, #[trigger] es[i]) }

/// encoder interval after encoding es[0], es[1], ... in this order
pub open spec fn enc_run(c: Cfg, s: Enc, es: Seq<E>) -> Enc decreases es.len() {
    if es.len() == 0 { s } else { enc_run(c, enc_step(c, s, es[0].cum, es[0].p, es[0].prec), es.drop_first()) }
}
pub open spec fn next_word(c: Cfg, s: Enc, d: Seq<nat>) -> nat { let idx = s.n + nwin(c); if idx < d.len() { d[idx as int] } else { 0 } }

pub proof fn lemma_enc_inv_step(c: Cfg, s: Enc, cum: nat, p: nat, prec: nat)
    requires cfg_ok(c, prec), enc_inv(c, s), entry_ok(cum, p, prec)
    ensures enc_inv(c, enc_step(c, s, cum, p, prec))
{
    let P2 = pow2(prec); let th = pow2((c.sb - c.wb) as nat); let W = pow2(c.wb); let m = pow2(c.sb);
    let k = pow2((c.sb - c.wb - prec) as nat);
    lemma_pow2_pos(prec); lemma_pow2_pos(c.wb); lemma_pow2_pos((c.sb - c.wb - prec) as nat);
    lemma_pow2_adds((c.sb - c.wb) as nat, c.wb);
    lemma_pow2_adds((c.sb - c.wb - prec) as nat, prec);
    let scale = s.r / P2; let r1 = scale * p;
    lemma_fundamental_div_mod(s.r as int, P2 as int); lemma_mod_bound(s.r as int, P2 as int);
    lemma_mul_is_commutative(scale as int, P2 as int);
    // scale >= k
    assert(scale >= k) by { if scale < k { lemma_mul_inequality((scale + 1) as int, k as int, P2 as int); lemma_mul_is_distributive_add_other_way(P2 as int, scale as int, 1); } }
    // r1 <= scale*P2 <= r < m ; r1 >= scale >= k
    lemma_mul_inequality(p as int, P2 as int, scale as int); lemma_mul_is_commutative(scale as int, p as int);
    lemma_mul_inequality(1, p as int, scale as int);
    if r1 < th {
        // r1*W >= k*W >= k*P2 = th ; r1*W < th*W = m
        assert(P2 <= W) by { if prec < c.wb { lemma_pow2_strictly_increases(prec, c.wb); } }
        lemma_mul_inequality(k as int, r1 as int, W as int);
        lemma_mul_inequality(P2 as int, W as int, k as int); lemma_mul_is_commutative(k as int, P2 as int); lemma_mul_is_commutative(k as int, W as int);
        lemma_mul_inequality((r1 + 1) as int, th as int, W as int); lemma_mul_is_distributive_add_other_way(W as int, r1 as int, 1);
    }
}

/// nestedness along a whole message: data inside the final interval is inside every earlier one
pub proof fn lemma_contains_chain(c: Cfg, s: Enc, es: Seq<E>, d: Seq<nat>)
    requires enc_inv(c, s), all_ok(c, es), words_ok(c, d), contains(c, enc_run(c, s, es), d)
    ensures contains(c, s, d)
    decreases es.len()
{
    if es.len() > 0 {
        let e = es[0];
        lemma_enc_inv_step(c, s, e.cum, e.p, e.prec);
        assert(all_ok(c, es.drop_first())) by { assert forall|i: int| 0 <= i < es.drop_first().len() implies e_ok(c, #[trigger] es.drop_first()[i]) by { assert(es.drop_first()[i] == es[i + 1]); } }
        lemma_contains_chain(c, enc_step(c, s, e.cum, e.p, e.prec), es.drop_first(), d);
        lemma_nested(c, s, d, e.cum, e.p, e.prec);
    }
}

/// decoder run: the i-th decoded quantile and the decoder state after the whole message
pub open spec fn dec_run(c: Cfg, s: Enc, t: Dec, es: Seq<E>, d: Seq<nat>) -> Dec decreases es.len() {
    if es.len() == 0 { t } else {
        let e = es[0];
        dec_run(c, enc_step(c, s, e.cum, e.p, e.prec), dec_step(c, t, e.cum, e.p, e.prec, next_word(c, s, d)), es.drop_first(), d)
    }
}
pub open spec fn quantiles_ok(c: Cfg, s: Enc, t: Dec, es: Seq<E>, d: Seq<nat>) -> bool decreases es.len() {
    if es.len() == 0 { true } else {
        let e = es[0]; let q = dec_quantile(c, t, e.prec);
        e.cum <= q < e.cum + e.p
        && quantiles_ok(c, enc_step(c, s, e.cum, e.p, e.prec), dec_step(c, t, e.cum, e.p, e.prec, next_word(c, s, d)), es.drop_first(), d)
    }
}

/// C02 for messages of ANY length: if the data (sealed words followed by anything) lies in the
/// encoder's final interval, a decoder that starts coupled decodes, at every position, a quantile
/// inside the interval of the symbol that was encoded there (so a valid model returns that
/// symbol), and ends coupled to the encoder's final state.
pub proof fn lemma_message_roundtrip(c: Cfg, s: Enc, t: Dec, es: Seq<E>, d: Seq<nat>)
    requires c.sb % c.wb == 0, enc_inv(c, s), all_ok(c, es), words_ok(c, d), coupled(c, s, t, d), contains(c, enc_run(c, s, es), d)
    ensures quantiles_ok(c, s, t, es, d), coupled(c, enc_run(c, s, es), dec_run(c, s, t, es, d), d)
    decreases es.len()
{
    if es.len() > 0 {
        let e = es[0]; let rest = es.drop_first();
        let s1 = enc_step(c, s, e.cum, e.p, e.prec);
        lemma_enc_inv_step(c, s, e.cum, e.p, e.prec);
        assert(all_ok(c, rest)) by { assert forall|i: int| 0 <= i < rest.len() implies e_ok(c, #[trigger] rest[i]) by { assert(rest[i] == es[i + 1]); } }
        lemma_contains_chain(c, s, es, d);
        lemma_contains_chain(c, s1, rest, d);
        lemma_coupling(c, s, t, d, e.cum, e.p, e.prec);
        lemma_message_roundtrip(c, s1, dec_step(c, t, e.cum, e.p, e.prec, next_word(c, s, d)), rest, d);
    }
}
proof fn lemma_message_roundtrip_reach(c: Cfg, s: Enc, t: Dec, es: Seq<E>, d: Seq<nat>)
    requires c.sb % c.wb == 0, enc_inv(c, s), all_ok(c, es), words_ok(c, d), coupled(c, s, t, d), contains(c, enc_run(c, s, es), d), es.len() >= 2
    ensures false
{}

// ---------- vacuity probes (must FAIL) ----------
proof fn lemma_coupling_reach(c: Cfg, s: Enc, t: Dec, d: Seq<nat>, cum: nat, p: nat, prec: nat)
    requires cfg_ok(c, prec), c.sb % c.wb == 0, enc_inv(c, s), entry_ok(cum, p, prec), words_ok(c, d),
             coupled(c, s, t, d), contains(c, s, d), contains(c, enc_step(c, s, cum, p, prec), d),
    ensures false
{}
proof fn lemma_nested_reach(c: Cfg, s: Enc, d: Seq<nat>, cum: nat, p: nat, prec: nat)
    requires cfg_ok(c, prec), enc_inv(c, s), entry_ok(cum, p, prec), words_ok(c, d), contains(c, enc_step(c, s, cum, p, prec), d),
    ensures false
{}

// =====================================================================================
// C07: random access.  A decoder placed by `seek` at the encoder's snapshot (n words emitted or
// held back, interval (l, r)) over the FINISHED data d is coupled to the encoder at that
// snapshot; lemma_message_roundtrip then yields every later symbol.
// =====================================================================================
//@INCLUDE frag_range_seek.rs

proof fn lemma_win_bound(c: Cfg, s: Seq<nat>, m: nat)
    requires words_ok(c, s)
    ensures win(c, s, m) < pow2(c.wb * m)
    decreases m
{
    if m == 0 { lemma2_to64(); assert(c.wb * 0 == 0); }
    else {
        lemma_win_bound(c, s, (m - 1) as nat);
        let k = (m - 1) as nat;
        let x: nat = if k < s.len() { s[k as int] } else { 0 };
        lemma_pow2_pos(c.wb);
        assert(x < pow2(c.wb));
        assert(c.wb * m == c.wb * k + c.wb) by (nonlinear_arith) requires m == k + 1;
        lemma_pow2_adds(c.wb * k, c.wb);
        // win' * W + x <= (2^(wb k) - 1) * W + W - 1 < 2^(wb k) * W
        assert(win(c, s, k) * pow2(c.wb) + x < pow2(c.wb * k) * pow2(c.wb)) by (nonlinear_arith)
            requires win(c, s, k) < pow2(c.wb * k), x < pow2(c.wb);
    }
}

proof fn lemma_pv_split(c: Cfg, d: Seq<nat>, n: nat, k: nat)
    requires n <= d.len()
    ensures pv(c, d, n + k) == pv(c, d, n) * pow2(c.wb * k) + win(c, d.subrange(n as int, d.len() as int), k)
    decreases k
{
    let t = d.subrange(n as int, d.len() as int);
    if k == 0 { lemma2_to64(); assert(c.wb * 0 == 0); assert(pv(c, d, n) * 1 == pv(c, d, n)); }
    else {
        let j = (k - 1) as nat;
        lemma_pv_split(c, d, n, j);
        assert(c.wb * k == c.wb * j + c.wb) by (nonlinear_arith) requires k == j + 1;
        lemma_pow2_adds(c.wb * j, c.wb);
        let xd: nat = if n + j < d.len() { d[(n + j) as int] } else { 0 };
        let xt: nat = if j < t.len() { t[j as int] } else { 0 };
        assert(xd == xt);
        assert((n + k - 1) as nat == n + j);
        assert(pv(c, d, n + k) == pv(c, d, n + j) * pow2(c.wb) + xd);
        assert(win(c, t, k) == win(c, t, j) * pow2(c.wb) + xt);
        assert((pv(c, d, n) * pow2(c.wb * j) + win(c, t, j)) * pow2(c.wb) + xd
               == pv(c, d, n) * (pow2(c.wb * j) * pow2(c.wb)) + (win(c, t, j) * pow2(c.wb) + xd)) by (nonlinear_arith);
    }
}

/// the decoder produced by seek((n, (lower, range))) over the finished data is coupled to the
/// encoder snapshot with interval (l, r) at n words, whatever lies before position n
pub proof fn thm_seek_coupled(c: Cfg, s: Enc, d: Seq<nat>)
    requires c.wb >= 1, c.sb >= c.wb, c.sb % c.wb == 0, words_ok(c, d), s.n <= d.len()
    ensures coupled(c, s, sought(c, s.l % pow2(c.sb), s.r, s.n, d), d)
{
    let t = d.subrange(s.n as int, d.len() as int);
    lemma_pv_split(c, d, s.n, nwin(c));
    assert(words_ok(c, t));
    lemma_win_bound(c, t, nwin(c));
    lemma_fundamental_div_mod(c.sb as int, c.wb as int);
    assert(c.wb * nwin(c) == c.sb);
    let m = pow2(c.sb);
    lemma_pow2_pos(c.sb);
    lemma_mod_multiples_vanish(pv(c, d, s.n) as int, win(c, t, nwin(c)) as int, m as int);
    lemma_small_mod(win(c, t, nwin(c)), m);
    lemma_mul_is_commutative(pv(c, d, s.n) as int, m as int);
}

/// C07 (queue coder), any number of symbols after the snapshot: every later quantile lies in
/// the interval of the symbol encoded there, regardless of where the decoder was before
pub proof fn thm_seek_resumes(c: Cfg, s: Enc, es: Seq<E>, d: Seq<nat>)
    requires c.wb >= 1, c.sb >= c.wb, c.sb % c.wb == 0, enc_inv(c, s), all_ok(c, es), words_ok(c, d), s.n <= d.len(),
             contains(c, enc_run(c, s, es), d)
    ensures quantiles_ok(c, s, sought(c, s.l % pow2(c.sb), s.r, s.n, d), es, d)
{
    thm_seek_coupled(c, s, d);
    lemma_message_roundtrip(c, s, sought(c, s.l % pow2(c.sb), s.r, s.n, d), es, d);
}
proof fn thm_seek_coupled_reach(c: Cfg, s: Enc, d: Seq<nat>)
    requires c.wb >= 1, c.sb >= c.wb, c.sb % c.wb == 0, words_ok(c, d), s.n <= d.len()
    ensures false
{}
} // verus!
fn main() {}
