// Layer A spec of the range coder as interval arithmetic: encoder interval, data value, abstract decoder (included by lemmas_range_interval.rs and the range decoder unit)
pub struct Cfg { pub wb: nat, pub sb: nat }
pub open spec fn cfg_ok(c: Cfg, prec: nat) -> bool { c.wb >= 1 && prec >= 1 && prec <= c.wb && c.sb >= c.wb + prec && c.sb >= 2 * c.wb }
pub open spec fn entry_ok(cum: nat, p: nat, prec: nat) -> bool { p >= 1 && cum + p <= pow2(prec) }

// abstract encoder interval [l, l+r) at scale 2^-(wb*n + sb); n = number of renormalisations so far
pub struct Enc { pub l: nat, pub r: nat, pub n: nat }
pub open spec fn enc_inv(c: Cfg, s: Enc) -> bool { pow2((c.sb - c.wb) as nat) <= s.r < pow2(c.sb) }
pub open spec fn enc_step(c: Cfg, s: Enc, cum: nat, p: nat, prec: nat) -> Enc {
    let scale = s.r / pow2(prec);
    let l1 = s.l + scale * cum; let r1 = scale * p;
    if r1 < pow2((c.sb - c.wb) as nat) { Enc { l: l1 * pow2(c.wb), r: r1 * pow2(c.wb), n: s.n + 1 } } else { Enc { l: l1, r: r1, n: s.n } }
}

// value of the first m words of the data, zero padded
pub open spec fn pv(c: Cfg, d: Seq<nat>, m: nat) -> nat decreases m {
    if m == 0 { 0 } else { pv(c, d, (m - 1) as nat) * pow2(c.wb) + (if m - 1 < d.len() { d[m - 1] } else { 0 }) }
}
pub open spec fn words_ok(c: Cfg, d: Seq<nat>) -> bool { forall|i: int| 0 <= i < d.len() ==> d[i] < pow2(c.wb) }
pub open spec fn nwin(c: Cfg) -> nat { c.sb / c.wb }
// X (the data) lies in the encoder's interval
pub open spec fn contains(c: Cfg, s: Enc, d: Seq<nat>) -> bool { s.l <= pv(c, d, s.n + nwin(c)) < s.l + s.r }

// abstract decoder (machine-width values)
pub struct Dec { pub lower: nat, pub range: nat, pub point: nat, pub n: nat }
pub open spec fn coupled(c: Cfg, s: Enc, t: Dec, d: Seq<nat>) -> bool {
    let m = pow2(c.sb);
    t.range == s.r && t.n == s.n && t.lower == s.l % m && t.point == pv(c, d, s.n + nwin(c)) % m
}
pub open spec fn dec_quantile(c: Cfg, t: Dec, prec: nat) -> nat {
    let m = pow2(c.sb);
    (((t.point + m - t.lower) as nat) % m) / (t.range / pow2(prec))
}
pub open spec fn dec_step(c: Cfg, t: Dec, cum: nat, p: nat, prec: nat, next_word: nat) -> Dec {
    let m = pow2(c.sb);
    let scale = t.range / pow2(prec);
    let lower1 = (t.lower + scale * cum) % m; let r1 = scale * p;
    if r1 < pow2((c.sb - c.wb) as nat) {
        Dec { lower: (lower1 * pow2(c.wb)) % m, range: r1 * pow2(c.wb), point: (t.point * pow2(c.wb)) % m + next_word, n: t.n + 1 }
    } else { Dec { lower: lower1, range: r1, point: t.point, n: t.n } }
}

