// Layer A spec of the range encoder: interval step, bookkeeping state, abstraction function (included by lemmas_range_bridge.rs and the range encoder unit)
pub struct Cfg { pub wb: nat, pub sb: nat }
pub open spec fn cfg_ok(c: Cfg, prec: nat) -> bool { c.wb >= 1 && prec >= 1 && prec <= c.wb && c.sb >= c.wb + prec && c.sb >= 2 * c.wb }
pub open spec fn entry_ok(cum: nat, p: nat, prec: nat) -> bool { p >= 1 && cum + p <= pow2(prec) }
pub open spec fn W(c: Cfg) -> nat { pow2(c.wb) }
pub open spec fn M(c: Cfg) -> nat { pow2(c.sb) }
pub open spec fn TH(c: Cfg) -> nat { pow2((c.sb - c.wb) as nat) }

pub struct Enc { pub l: nat, pub r: nat, pub n: nat }
pub open spec fn enc_step(c: Cfg, s: Enc, cum: nat, p: nat, prec: nat) -> Enc {
    let scale = s.r / pow2(prec);
    let l1 = s.l + scale * cum; let r1 = scale * p;
    if r1 < TH(c) { Enc { l: l1 * W(c), r: r1 * W(c), n: s.n + 1 } } else { Enc { l: l1, r: r1, n: s.n } }
}

// concrete bookkeeping state (math copy of RangeEncoder's fields)
pub enum Sit { Normal, Inverted(nat, nat) }   // (num_inverted, first word)
pub struct CEnc { pub bulk: Seq<nat>, pub lower: nat, pub range: nat, pub sit: Sit }

pub open spec fn val(c: Cfg, ws: Seq<nat>) -> nat decreases ws.len() {
    if ws.len() == 0 { 0 } else { val(c, ws.drop_last()) * W(c) + ws.last() }
}
pub open spec fn rep(w: nat, k: nat) -> Seq<nat> { Seq::new(k, |i: int| w) }
// value of  base ++ [first] ++ [ff]*(n-1)  given val(base) = b
pub open spec fn pend_val(c: Cfg, b: nat, n: nat, first: nat) -> nat { ((b * W(c) + first + 1) * pow2(c.wb * ((n - 1) as nat)) - 1) as nat }

pub open spec fn abs(c: Cfg, s: CEnc) -> Enc {
    match s.sit {
        Sit::Normal => Enc { l: val(c, s.bulk) * M(c) + s.lower, r: s.range, n: s.bulk.len() },
        Sit::Inverted(n, first) => Enc { l: pend_val(c, val(c, s.bulk), n, first) * M(c) + s.lower, r: s.range, n: s.bulk.len() + n },
    }
}
pub open spec fn cinv(c: Cfg, s: CEnc) -> bool {
    &&& TH(c) <= s.range < M(c) && s.lower < M(c)
    &&& match s.sit { Sit::Normal => s.lower + s.range < M(c), Sit::Inverted(n, first) => n >= 1 && first + 1 < W(c) && s.lower + s.range >= M(c) }
}

pub open spec fn cstep(c: Cfg, s: CEnc, cum: nat, p: nat, prec: nat) -> CEnc {
    let scale = s.range / pow2(prec);
    let r1 = scale * p;
    let nl = (s.lower + scale * cum) % M(c);
    // resolution of held-back words
    let (bulk1, sit1) = match s.sit {
        Sit::Inverted(n, first) if nl + r1 < M(c) =>
            if nl < s.lower { (s.bulk.push(first + 1) + rep(0, (n - 1) as nat), Sit::Normal) }
            else { (s.bulk.push(first) + rep((W(c) - 1) as nat, (n - 1) as nat), Sit::Normal) },
        _ => (s.bulk, s.sit),
    };
    if r1 < TH(c) {
        let range2 = r1 * W(c);
        let lower_word = nl / TH(c);
        let lower2 = (nl * W(c)) % M(c);
        match sit1 {
            Sit::Inverted(n, f) => CEnc { bulk: bulk1, lower: lower2, range: range2, sit: Sit::Inverted(n + 1, f) },
            Sit::Normal => if lower2 + range2 < M(c) { CEnc { bulk: bulk1.push(lower_word), lower: lower2, range: range2, sit: Sit::Normal } }
                           else { CEnc { bulk: bulk1, lower: lower2, range: range2, sit: Sit::Inverted(1, lower_word) } },
        }
    } else { CEnc { bulk: bulk1, lower: nl, range: r1, sit: sit1 } }
}

// the documented sealing rule on the bookkeeping state (math copy of RangeEncoder::seal)
pub open spec fn seal_carry(c: Cfg, s: CEnc) -> bool { s.lower + TH(c) - 1 >= M(c) }
pub open spec fn seal_pw(c: Cfg, s: CEnc) -> nat { (((s.lower + TH(c) - 1) as nat) % M(c)) / TH(c) }
pub open spec fn seal_two(c: Cfg, s: CEnc) -> bool { ((s.lower + s.range) % M(c)) / TH(c) == seal_pw(c, s) }
pub open spec fn seal_pending(c: Cfg, s: CEnc) -> Seq<nat> {
    match s.sit {
        Sit::Normal => Seq::empty(),
        Sit::Inverted(n, first) => if seal_carry(c, s) { seq![first + 1] + rep(0, (n - 1) as nat) } else { seq![first] + rep((W(c) - 1) as nat, (n - 1) as nat) },
    }
}
pub open spec fn seal_seq(c: Cfg, s: CEnc) -> Seq<nat> {
    seal_pending(c, s) + seq![seal_pw(c, s)] + (if seal_two(c, s) { seq![0nat] } else { Seq::empty() })
}

