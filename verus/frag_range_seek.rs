// Layer A for random access into range-coded data (C07): the decoder's window at a word position.
// (included by lemmas_range_seek.rs and the range seek unit; needs frag_range_interval.rs before it)

// value of the first m words of `s`, zero padded: what RangeDecoder::read_point computes for m = sb/wb
pub open spec fn win(c: Cfg, s: Seq<nat>, m: nat) -> nat decreases m {
    if m == 0 { 0 } else { win(c, s, (m - 1) as nat) * pow2(c.wb) + (if m - 1 < s.len() { s[m - 1] } else { 0 }) }
}
// the decoder that `seek((n, (lower, range)))` produces over the data d
pub open spec fn sought(c: Cfg, lower: nat, range: nat, n: nat, d: Seq<nat>) -> Dec {
    Dec { lower, range, point: win(c, d.subrange(n as int, d.len() as int), nwin(c)), n }
}
