// Layer A: seal rule at State = 2 Words, normal situation (C11/C02)
use vstd::prelude::*;
use vstd::arithmetic::power2::*;
use vstd::arithmetic::div_mod::*;
use vstd::arithmetic::mul::*;

verus! {

// seal at the level of the decoder window, State = 2 Words  (sb == 2*wb, TH == W)
// window = first sb/wb = 2 words after the pending words: [pw, x] where x = 0 (two seal words) or arbitrary suffix word (one seal word)
// Normal situation: lower + range < M; no wrap anywhere.
pub proof fn lemma_seal_normal(wb: nat, lower: nat, range: nat, x: nat)
    requires wb >= 1, pow2(wb) <= range, lower + range < pow2(2 * wb), x < pow2(wb)
    ensures ({
        let th = pow2(wb); let m = pow2(2 * wb);
        let point = (lower + th - 1) as nat; let pw = point / th;
        let two = (lower + range) / th == pw;
        let window = pw * th + (if two { 0 } else { x });
        lower <= window && window < lower + range && pw < th
    })
{
    let th = pow2(wb); let m = pow2(2 * wb);
    lemma_pow2_pos(wb); lemma_pow2_adds(wb, wb); assert(wb + wb == 2 * wb);
    let point = (lower + th - 1) as nat; let pw = point / th;
    lemma_fundamental_div_mod(point as int, th as int); lemma_mod_bound(point as int, th as int);
    lemma_mul_is_commutative(th as int, pw as int);
    // pw*th <= point < pw*th + th ; pw*th >= point - (th-1) = lower
    assert(pw * th >= lower);
    let up = (lower + range) as nat; let uw = up / th;
    lemma_fundamental_div_mod(up as int, th as int); lemma_mod_bound(up as int, th as int);
    lemma_mul_is_commutative(th as int, uw as int);
    if pw >= th { lemma_mul_inequality(th as int, pw as int, th as int); }
    if uw != pw {
        // up >= point + 1 > pw*th  => uw >= pw ; uw != pw => uw >= pw+1 => up >= (pw+1)*th
        if uw < pw { lemma_mul_inequality((uw + 1) as int, pw as int, th as int); lemma_mul_is_distributive_add_other_way(th as int, uw as int, 1); }
        lemma_mul_inequality((pw + 1) as int, uw as int, th as int); lemma_mul_is_distributive_add_other_way(th as int, pw as int, 1);
    }
}


proof fn lemma_seal_normal_reach(wb: nat, lower: nat, range: nat, x: nat)
    requires wb >= 1, pow2(wb) <= range, lower + range < pow2(2 * wb), x < pow2(wb)
    ensures false
{}
} // verus!
fn main() {}
