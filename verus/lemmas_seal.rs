// Layer A: seal rule at State = 2 Words, normal situation (C11/C02)
use vstd::prelude::*;
use vstd::arithmetic::power2::*;
use vstd::arithmetic::div_mod::*;
use vstd::arithmetic::mul::*;

verus! {

//@INCLUDE frag_seal.rs

} // verus!
fn main() {}
