// Layer A: width-parametric lemmas about streaming rANS (hand written; no code from /repo).
//   lemma_pop_push   (C01)  pop(push(a,e),e) == a, inv preserved, quantile of the pushed state lies in e
//   lemma_push_pop   (C04)  push(pop(a,e),e) == a for the entry containing the quantile, inv preserved
//   lemma_history    (C01)  every balanced LIFO history (any nesting, any precisions) restores the coder
//   lemma_bits_back  (C04)  pop^n then push^n in reverse order restores the coder
//   lemma_potential_step_* (C12) integer potential inequality per step
use vstd::prelude::*;
use vstd::arithmetic::power2::*;
use vstd::arithmetic::div_mod::*;
use vstd::arithmetic::mul::*;

verus! {

//@INCLUDE frag_ans_math.rs

// ---------- histories ----------
pub struct E { pub cum: nat, pub p: nat, pub prec: nat }
pub open spec fn e_ok(c: Cfg, e: E) -> bool { cfg_ok(c, e.prec) && entry_ok(e.cum, e.p, e.prec) && e.p < pow2(e.prec) }

pub enum Op { Push(E), Pop(E) }

pub open spec fn step(c: Cfg, a: Ans, op: Op) -> Ans {
    match op { Op::Push(e) => push(c, a, e.cum, e.p, e.prec), Op::Pop(e) => pop(c, a, e.cum, e.p, e.prec) }
}
pub open spec fn run(c: Cfg, a: Ans, ops: Seq<Op>) -> Ans decreases ops.len() {
    if ops.len() == 0 { a } else { step(c, run(c, a, ops.drop_last()), ops.last()) }
}

pub proof fn lemma_run_concat(c: Cfg, a: Ans, s1: Seq<Op>, s2: Seq<Op>)
    ensures run(c, a, s1 + s2) == run(c, run(c, a, s1), s2)
    decreases s2.len()
{
    if s2.len() == 0 {
        assert(s1 + s2 =~= s1);
    } else {
        assert((s1 + s2).drop_last() =~= s1 + s2.drop_last());
        assert((s1 + s2).last() == s2.last());
        lemma_run_concat(c, a, s1, s2.drop_last());
    }
}

// A balanced LIFO history: push e; <balanced>; pop e; <balanced>   (Dyck word over entries)
pub enum Hist { Nil, Node(E, Box<Hist>, Box<Hist>) }

pub open spec fn hist_ok(c: Cfg, h: Hist) -> bool decreases h {
    match h { Hist::Nil => true, Hist::Node(e, inner, rest) => e_ok(c, e) && hist_ok(c, *inner) && hist_ok(c, *rest) }
}
pub open spec fn flat(h: Hist) -> Seq<Op> decreases h {
    match h {
        Hist::Nil => Seq::empty(),
        Hist::Node(e, inner, rest) => seq![Op::Push(e)] + flat(*inner) + seq![Op::Pop(e)] + flat(*rest),
    }
}

proof fn lemma_run_one(c: Cfg, a: Ans, op: Op)
    ensures run(c, a, seq![op]) == step(c, a, op)
{
    assert(seq![op].drop_last() =~= Seq::<Op>::empty());
    assert(run(c, a, seq![op].drop_last()) == a);
}

/// C01: whatever balanced interleaving of pushes and pops (any nesting depth, per-symbol
/// precisions), the coder's view is restored and the invariant holds; the pop matching a push
/// sees a state whose quantile lies in the pushed entry (so a valid model returns its symbol).
pub proof fn lemma_history(c: Cfg, a: Ans, h: Hist)
    requires inv(c, a), hist_ok(c, h)
    ensures run(c, a, flat(h)) == a
    decreases h
{
    match h {
        Hist::Nil => {}
        Hist::Node(e, inner, rest) => {
            let a1 = push(c, a, e.cum, e.p, e.prec);
            lemma_pop_push(c, a, e.cum, e.p, e.prec);
            lemma_history(c, a1, *inner);
            lemma_history(c, a, *rest);
            let s_push = seq![Op::Push(e)];
            let s_pop = seq![Op::Pop(e)];
            lemma_run_one(c, a, Op::Push(e));
            lemma_run_concat(c, a, s_push, flat(*inner));
            lemma_run_concat(c, a, s_push + flat(*inner), s_pop);
            lemma_run_one(c, run(c, a, s_push + flat(*inner)), Op::Pop(e));
            lemma_run_concat(c, a, s_push + flat(*inner) + s_pop, flat(*rest));
        }
    }
}

/// the matching pop decodes the pushed symbol: the quantile of the pushed state lies in e
pub proof fn lemma_pushed_quantile(c: Cfg, a: Ans, cum: nat, p: nat, prec: nat)
    requires cfg_ok(c, prec), inv(c, a), entry_ok(cum, p, prec), p < pow2(prec)
    ensures cum <= push(c, a, cum, p, prec).state % pow2(prec) < cum + p
{
    let fl = a.state / pow2((c.sb - prec) as nat) >= p;
    let s = if fl { a.state / pow2(c.wb) } else { a.state };
    lemma_head_roundtrip(s, cum, p, prec);
    lemma_mod_bound(s as int, p as int);
}

// ---------- bits-back: pop^n then push^n reversed ----------
pub open spec fn quantile_in(a: Ans, e: E) -> bool { e.cum <= a.state % pow2(e.prec) < e.cum + e.p }

pub open spec fn pops(c: Cfg, a: Ans, es: Seq<E>) -> Ans decreases es.len() {
    if es.len() == 0 { a } else { pops(c, pop(c, a, es[0].cum, es[0].p, es[0].prec), es.drop_first()) }
}
pub open spec fn pops_ok(c: Cfg, a: Ans, es: Seq<E>) -> bool decreases es.len() {
    if es.len() == 0 { true } else {
        cfg_ok(c, es[0].prec) && entry_ok(es[0].cum, es[0].p, es[0].prec) && quantile_in(a, es[0])
        && pops_ok(c, pop(c, a, es[0].cum, es[0].p, es[0].prec), es.drop_first())
    }
}
pub open spec fn pushes_rev(c: Cfg, a: Ans, es: Seq<E>) -> Ans decreases es.len() {
    if es.len() == 0 { a } else { let b = pushes_rev(c, a, es.drop_first()); push(c, b, es[0].cum, es[0].p, es[0].prec) }
}

/// C04: decoding n symbols from arbitrary data (each model answering for the quantile it is
/// asked) and encoding them back in reverse order restores the coder exactly.
pub proof fn lemma_bits_back(c: Cfg, a: Ans, es: Seq<E>)
    requires inv(c, a), pops_ok(c, a, es)
    ensures pushes_rev(c, pops(c, a, es), es) == a, inv(c, pops(c, a, es))
    decreases es.len()
{
    if es.len() > 0 {
        let e = es[0];
        lemma_push_pop(c, a, e.cum, e.p, e.prec);
        lemma_bits_back(c, pop(c, a, e.cum, e.p, e.prec), es.drop_first());
    }
}

// ---------- vacuity probes (must FAIL) ----------
proof fn lemma_pop_push_reach(c: Cfg, a: Ans, cum: nat, p: nat, prec: nat)
    requires cfg_ok(c, prec), inv(c, a), entry_ok(cum, p, prec), p < pow2(prec)
    ensures false
{}
proof fn lemma_push_pop_reach(c: Cfg, a: Ans, cum: nat, p: nat, prec: nat)
    requires cfg_ok(c, prec), inv(c, a), entry_ok(cum, p, prec), cum <= a.state % pow2(prec) < cum + p,
    ensures false
{}
proof fn lemma_history_reach(c: Cfg, a: Ans, h: Hist)
    requires inv(c, a), hist_ok(c, h), h is Node
    ensures false
{}

} // verus!
fn main() {}
