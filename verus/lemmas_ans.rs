// Layer A: width-parametric lemmas about streaming rANS (hand written; no code from /repo).
//   lemma_pop_push   (C01)  pop(push(a,e),e) == a, inv preserved, quantile of the pushed state lies in e
//   lemma_push_pop   (C04)  push(pop(a,e),e) == a for the entry containing the quantile, inv preserved
//   lemma_history    (C01)  every balanced LIFO history (any nesting, any precisions) restores the coder
//   lemma_bits_back  (C04)  pop^n then push^n in reverse order restores the coder
//   lemma_potential_step_* (C12) integer potential inequality per step
use vstd::prelude::*;
use vstd::arithmetic::power2::*;
use vstd::arithmetic::div_mod::*;
use vstd::arithmetic::mul::*;

verus! {

//@INCLUDE frag_ans_math.rs

// ---------- histories ----------
pub struct E { pub cum: nat, pub p: nat, pub prec: nat }
pub open spec fn e_ok(c: Cfg, e: E) -> bool { cfg_ok(c, e.prec) && entry_ok(e.cum, e.p, e.prec) && e.p < pow2(e.prec) }

pub enum Op { Push(E), Pop(E) }

pub open spec fn step(c: Cfg, a: Ans, op: Op) -> Ans {
    match op { Op::Push(e) => push(c, a, e.cum, e.p, e.prec), Op::Pop(e) => pop(c, a, e.cum, e.p, e.prec) }
}
pub open spec fn run(c: Cfg, a: Ans, ops: Seq<Op>) -> Ans decreases ops.len() {
    if ops.len() == 0 { a } else { step(c, run(c, a, ops.drop_last()), ops.last()) }
}

pub proof fn lemma_run_concat(c: Cfg, a: Ans, s1: Seq<Op>, s2: Seq<Op>)
    ensures run(c, a, s1 + s2) == run(c, run(c, a, s1), s2)
    decreases s2.len()
{
    if s2.len() == 0 {
        assert(s1 + s2 =~= s1);
    } else {
        assert((s1 + s2).drop_last() =~= s1 + s2.drop_last());
        assert((s1 + s2).last() == s2.last());
        lemma_run_concat(c, a, s1, s2.drop_last());
    }
}

// A balanced LIFO history: push e; <balanced>; pop e; <balanced>   (Dyck word over entries)
pub enum Hist { Nil, Node(E, Box<Hist>, Box<Hist>) }

pub open spec fn hist_ok(c: Cfg, h: Hist) -> bool decreases h {
    match h { Hist::Nil => true, Hist::Node(e, inner, rest) => e_ok(c, e) && hist_ok(c, *inner) && hist_ok(c, *rest) }
}
pub open spec fn flat(h: Hist) -> Seq<Op> decreases h {
    match h {
        Hist::Nil => Seq::empty(),
        Hist::Node(e, inner, rest) => seq![Op::Push(e)] + flat(*inner) + seq![Op::Pop(e)] + flat(*rest),
    }
}

proof fn lemma_run_one(c: Cfg, a: Ans, op: Op)
    ensures run(c, a, seq![op]) == step(c, a, op)
{
    assert(seq![op].drop_last() =~= Seq::<Op>::empty());
    assert(run(c, a, seq![op].drop_last()) == a);
}

/// C01: whatever balanced interleaving of pushes and pops (any nesting depth, per-symbol
/// precisions), the coder's view is restored and the invariant holds; the pop matching a push
/// sees a state whose quantile lies in the pushed entry (so a valid model returns its symbol).
pub proof fn lemma_history(c: Cfg, a: Ans, h: Hist)
    requires inv(c, a), hist_ok(c, h)
    ensures run(c, a, flat(h)) == a
    decreases h
{
    match h {
        Hist::Nil => {}
        Hist::Node(e, inner, rest) => {
            let a1 = push(c, a, e.cum, e.p, e.prec);
            lemma_pop_push(c, a, e.cum, e.p, e.prec);
            lemma_history(c, a1, *inner);
            lemma_history(c, a, *rest);
            let s_push = seq![Op::Push(e)];
            let s_pop = seq![Op::Pop(e)];
            lemma_run_one(c, a, Op::Push(e));
            lemma_run_concat(c, a, s_push, flat(*inner));
            lemma_run_concat(c, a, s_push + flat(*inner), s_pop);
            lemma_run_one(c, run(c, a, s_push + flat(*inner)), Op::Pop(e));
            lemma_run_concat(c, a, s_push + flat(*inner) + s_pop, flat(*rest));
        }
    }
}

/// the matching pop decodes the pushed symbol: the quantile of the pushed state lies in e
pub proof fn lemma_pushed_quantile(c: Cfg, a: Ans, cum: nat, p: nat, prec: nat)
    requires cfg_ok(c, prec), inv(c, a), entry_ok(cum, p, prec), p < pow2(prec)
    ensures cum <= push(c, a, cum, p, prec).state % pow2(prec) < cum + p
{
    let fl = a.state / pow2((c.sb - prec) as nat) >= p;
    let s = if fl { a.state / pow2(c.wb) } else { a.state };
    lemma_head_roundtrip(s, cum, p, prec);
    lemma_mod_bound(s as int, p as int);
}

// ---------- bits-back: pop^n then push^n reversed ----------
pub open spec fn quantile_in(a: Ans, e: E) -> bool { e.cum <= a.state % pow2(e.prec) < e.cum + e.p }

pub open spec fn pops(c: Cfg, a: Ans, es: Seq<E>) -> Ans decreases es.len() {
    if es.len() == 0 { a } else { pops(c, pop(c, a, es[0].cum, es[0].p, es[0].prec), es.drop_first()) }
}
pub open spec fn pops_ok(c: Cfg, a: Ans, es: Seq<E>) -> bool decreases es.len() {
    if es.len() == 0 { true } else {
        cfg_ok(c, es[0].prec) && entry_ok(es[0].cum, es[0].p, es[0].prec) && quantile_in(a, es[0])
        && pops_ok(c, pop(c, a, es[0].cum, es[0].p, es[0].prec), es.drop_first())
    }
}
pub open spec fn pushes_rev(c: Cfg, a: Ans, es: Seq<E>) -> Ans decreases es.len() {
    if es.len() == 0 { a } else { let b = pushes_rev(c, a, es.drop_first()); push(c, b, es[0].cum, es[0].p, es[0].prec) }
}

/// C04: decoding n symbols from arbitrary data (each model answering for the quantile it is
/// asked) and encoding them back in reverse order restores the coder exactly.
pub proof fn lemma_bits_back(c: Cfg, a: Ans, es: Seq<E>)
    requires inv(c, a), pops_ok(c, a, es)
    ensures pushes_rev(c, pops(c, a, es), es) == a, inv(c, pops(c, a, es))
    decreases es.len()
{
    if es.len() > 0 {
        let e = es[0];
        lemma_push_pop(c, a, e.cum, e.p, e.prec);
        lemma_bits_back(c, pop(c, a, e.cum, e.p, e.prec), es.drop_first());
    }
}

// ---------- C12: integer potential, one step (flush or not) and n steps ----------
pub open spec fn kk(c: Cfg, prec: nat) -> nat { pow2((c.sb - c.wb - prec) as nat) }
pub open spec fn phi(c: Cfg, a: Ans) -> nat { hd(c, a) * pow2(c.wb * a.bulk.len()) }

/// head update from a state s that is bounded by s0 >= p*k:  max(t, th) * p * k <= s0 * 2^P * (k+1)
proof fn lemma_head_step(c: Cfg, s: nat, s0: nat, cum: nat, p: nat, prec: nat)
    requires cfg_ok(c, prec), entry_ok(cum, p, prec), s <= s0, p * kk(c, prec) <= s0
    ensures ({
        let th = pow2((c.sb - c.wb) as nat); let k = kk(c, prec);
        let t = (s / p) * pow2(prec) + cum + s % p;
        let t0 = if t >= th { t } else { th };
        t0 * p * k <= s0 * pow2(prec) * (k + 1)
    })
{
    let P2 = pow2(prec); let th = pow2((c.sb - c.wb) as nat); let k = kk(c, prec);
    lemma_pow2_pos(prec); lemma_pow2_pos((c.sb - c.wb) as nat); lemma_pow2_pos((c.sb - c.wb - prec) as nat);
    lemma_pow2_adds((c.sb - c.wb - prec) as nat, prec);   // k*P2 == th
    let t = (s / p) * P2 + cum + s % p;
    lemma_fundamental_div_mod(s as int, p as int);
    lemma_mod_bound(s as int, p as int);
    assert(t * p <= (s + p) * P2) by {
        assert(t < (s / p + 1) * P2) by { lemma_mul_is_distributive_add_other_way(P2 as int, (s/p) as int, 1); }
        lemma_mul_inequality(t as int, ((s / p + 1) * P2) as int, p as int);
        lemma_mul_is_associative((s / p + 1) as int, P2 as int, p as int);
        lemma_mul_is_commutative(P2 as int, p as int);
        lemma_mul_is_associative((s / p + 1) as int, p as int, P2 as int);
        lemma_mul_is_distributive_add_other_way(p as int, (s / p) as int, 1);
        lemma_mul_is_commutative((s/p) as int, p as int);
        assert((s / p + 1) * p <= s + p);
        lemma_mul_inequality(((s / p + 1) * p) as int, (s + p) as int, P2 as int);
    }
    if t < th {
        assert(th * p * k <= s0 * P2 * (k + 1)) by {
            // th*p*k = k*P2*p*k ; p*k <= s0  =>  k*P2*(p*k) <= k*P2*s0 <= (k+1)*P2*s0
            assert(th * p * k == (k * P2) * (p * k)) by { lemma_mul_is_associative(th as int, p as int, k as int); }
            lemma_mul_inequality((p * k) as int, s0 as int, (k * P2) as int);
            lemma_mul_is_commutative((k * P2) as int, (p * k) as int); lemma_mul_is_commutative((k * P2) as int, s0 as int);
            assert((k * P2) * s0 == s0 * P2 * k) by { lemma_mul_is_commutative(k as int, P2 as int); lemma_mul_is_associative(s0 as int, P2 as int, k as int); lemma_mul_is_commutative((P2 * k) as int, s0 as int); }
            lemma_mul_inequality(k as int, (k + 1) as int, (s0 * P2) as int);
            lemma_mul_is_commutative(k as int, (s0 * P2) as int); lemma_mul_is_commutative((k + 1) as int, (s0 * P2) as int);
        }
    } else {
        assert(t * p * k <= s0 * P2 * (k + 1)) by {
            lemma_mul_inequality((t * p) as int, ((s + p) * P2) as int, k as int);
            lemma_mul_is_associative((s + p) as int, P2 as int, k as int);
            lemma_mul_is_commutative(P2 as int, k as int);
            lemma_mul_is_associative((s + p) as int, k as int, P2 as int);
            lemma_mul_is_distributive_add_other_way(k as int, s as int, p as int);
            assert((s + p) * P2 * k == (s * k + p * k) * P2);
            lemma_mul_inequality(s as int, s0 as int, k as int);
            lemma_mul_is_distributive_add(s0 as int, k as int, 1);
            assert(s * k + p * k <= s0 * (k + 1));
            lemma_mul_inequality((s * k + p * k) as int, (s0 * (k + 1)) as int, P2 as int);
            lemma_mul_is_associative(s0 as int, (k + 1) as int, P2 as int);
            lemma_mul_is_commutative((k + 1) as int, P2 as int);
            lemma_mul_is_associative(s0 as int, P2 as int, (k + 1) as int);
        }
    }
}

/// C12, one symbol (flush or not): phi(push(a)) * p * 2^k <= phi(a) * 2^P * (2^k + 1), and at most one word is pushed
pub proof fn lemma_potential_step(c: Cfg, a: Ans, cum: nat, p: nat, prec: nat)
    requires cfg_ok(c, prec), inv(c, a), entry_ok(cum, p, prec)
    ensures
        phi(c, push(c, a, cum, p, prec)) * p * kk(c, prec) <= phi(c, a) * pow2(prec) * (kk(c, prec) + 1),
        push(c, a, cum, p, prec).bulk.len() <= a.bulk.len() + 1,
{
    let W = pow2(c.wb); let P2 = pow2(prec); let th = pow2((c.sb - c.wb) as nat); let k = kk(c, prec);
    let hi = pow2((c.sb - prec) as nat);
    lemma_pow2_pos(prec); lemma_pow2_pos(c.wb); lemma_pow2_pos((c.sb - c.wb) as nat); lemma_pow2_pos((c.sb - c.wb - prec) as nat); lemma_pow2_pos((c.sb - prec) as nat);
    lemma_pow2_adds((c.sb - c.wb - prec) as nat, prec);   // k*P2 == th
    lemma_pow2_adds((c.sb - c.wb - prec) as nat, c.wb);   // k*W == hi
    let n = a.bulk.len();
    let Wn = pow2(c.wb * n);
    lemma_pow2_pos(c.wb * n);
    let b = push(c, a, cum, p, prec);
    let fl = a.state / hi >= p;
    assert(p * k <= th) by { lemma_mul_inequality(p as int, P2 as int, k as int); lemma_mul_is_commutative(P2 as int, k as int); lemma_mul_is_commutative(p as int, k as int); }
    if fl {
        let s1 = a.state / W;
        // a.state >= p*hi = p*k*W  =>  s1 >= p*k ;  a.state >= th so hd(a) == a.state ; s1 * W <= a.state
        lemma_div_ge_from_quot(a.state, hi, p);
        assert(p * hi == (p * k) * W) by { lemma_mul_is_associative(p as int, k as int, W as int); }
        lemma_div_ge(a.state, W, p * k);
        lemma_fundamental_div_mod(a.state as int, W as int); lemma_mod_bound(a.state as int, W as int);
        lemma_mul_is_commutative(W as int, s1 as int);
        assert(hi >= th) by { if prec < c.wb { lemma_pow2_strictly_increases((c.sb - c.wb) as nat, (c.sb - prec) as nat); } }
        assert(a.state >= th) by { lemma_mul_inequality(1, p as int, hi as int); }
        lemma_head_step(c, s1, s1, cum, p, prec);
        let t0 = hd(c, b);
        // phi(b) = t0 * W^(n+1) ; multiply t0*p*k <= s1*P2*(k+1) by W^(n+1) and use s1*W <= a.state
        assert(b.bulk.len() == n + 1);
        assert(c.wb * (n + 1) == c.wb * n + c.wb) by { lemma_mul_is_distributive_add(c.wb as int, n as int, 1); }
        lemma_pow2_adds(c.wb * n, c.wb);
        let Wn1 = pow2(c.wb * (n + 1));
        assert(Wn1 == Wn * W);
        lemma_mul_inequality((t0 * p * k) as int, (s1 * P2 * (k + 1)) as int, Wn1 as int);
        // rearrangements
        assert(t0 * Wn1 * p * k == (t0 * p * k) * Wn1) by (nonlinear_arith);
        assert((s1 * P2 * (k + 1)) * Wn1 == (s1 * W) * Wn * P2 * (k + 1)) by (nonlinear_arith) requires Wn1 == Wn * W;
        assert((s1 * W) * Wn * P2 * (k + 1) <= a.state * Wn * P2 * (k + 1)) by (nonlinear_arith) requires s1 * W <= a.state;
    } else {
        lemma_div_lt_from_quot(a.state, hi, p);
        let s0 = hd(c, a);
        lemma_head_step(c, a.state, s0, cum, p, prec);
        let t0 = hd(c, b);
        assert(b.bulk.len() == n);
        lemma_mul_inequality((t0 * p * k) as int, (s0 * P2 * (k + 1)) as int, Wn as int);
        assert(t0 * Wn * p * k == (t0 * p * k) * Wn) by (nonlinear_arith);
        assert((s0 * P2 * (k + 1)) * Wn == s0 * Wn * P2 * (k + 1)) by (nonlinear_arith);
    }
}

/// C12, n symbols with one precision: phi_n * prod(p_i * 2^k) <= phi_0 * prod(2^P * (2^k + 1)) and |bulk_n| <= |bulk_0| + n.
/// (Taking log2 of this product inequality gives the information-content bound of C12: assumption A-log.)
pub open spec fn pushes(c: Cfg, a: Ans, es: Seq<E>) -> Ans decreases es.len() {
    if es.len() == 0 { a } else { let b = pushes(c, a, es.drop_last()); push(c, b, es.last().cum, es.last().p, es.last().prec) }
}
pub open spec fn den(c: Cfg, es: Seq<E>) -> nat decreases es.len() {
    if es.len() == 0 { 1 } else { den(c, es.drop_last()) * (es.last().p * kk(c, es.last().prec)) }
}
pub open spec fn num(c: Cfg, es: Seq<E>) -> nat decreases es.len() {
    if es.len() == 0 { 1 } else { num(c, es.drop_last()) * (pow2(es.last().prec) * (kk(c, es.last().prec) + 1)) }
}
pub open spec fn all_ok(c: Cfg, es: Seq<E>) -> bool { forall|i: int| 0 <= i < es.len() ==> e_ok(c, #[trigger] es[i]) }

pub proof fn lemma_potential_n(c: Cfg, a: Ans, es: Seq<E>)
    requires inv(c, a), all_ok(c, es)
    ensures
        phi(c, pushes(c, a, es)) * den(c, es) <= phi(c, a) * num(c, es),
        pushes(c, a, es).bulk.len() <= a.bulk.len() + es.len(),
        inv(c, pushes(c, a, es)),
    decreases es.len()
{
    if es.len() == 0 {
        assert(phi(c, a) * 1 == phi(c, a)) by (nonlinear_arith);
    } else {
        let pre = es.drop_last(); let e = es.last();
        assert(all_ok(c, pre)) by { assert forall|i: int| 0 <= i < pre.len() implies e_ok(c, #[trigger] pre[i]) by { assert(pre[i] == es[i]); } }
        lemma_potential_n(c, a, pre);
        let b = pushes(c, a, pre);
        assert(e_ok(c, es[es.len() - 1]));
        lemma_pop_push(c, b, e.cum, e.p, e.prec);
        lemma_potential_step(c, b, e.cum, e.p, e.prec);
        let b1 = push(c, b, e.cum, e.p, e.prec);
        let d = den(c, pre); let nm = num(c, pre); let f = e.p * kk(c, e.prec); let g = pow2(e.prec) * (kk(c, e.prec) + 1);
        // phi(b1)*f <= phi(b)*g  and  phi(b)*d <= phi(a)*nm   =>   phi(b1)*(d*f) <= phi(a)*(nm*g)
        assert(phi(c, b1) * f <= phi(c, b) * g) by (nonlinear_arith)
            requires phi(c, b1) * e.p * kk(c, e.prec) <= phi(c, b) * pow2(e.prec) * (kk(c, e.prec) + 1), f == e.p * kk(c, e.prec), g == pow2(e.prec) * (kk(c, e.prec) + 1);
        assert(phi(c, b1) * (d * f) <= phi(c, a) * (nm * g)) by (nonlinear_arith)
            requires phi(c, b1) * f <= phi(c, b) * g, phi(c, b) * d <= phi(c, a) * nm;
    }
}
proof fn lemma_potential_step_reach(c: Cfg, a: Ans, cum: nat, p: nat, prec: nat)
    requires cfg_ok(c, prec), inv(c, a), entry_ok(cum, p, prec), a.bulk.len() > 0
    ensures false
{}

// ---------- vacuity probes (must FAIL) ----------
proof fn lemma_pop_push_reach(c: Cfg, a: Ans, cum: nat, p: nat, prec: nat)
    requires cfg_ok(c, prec), inv(c, a), entry_ok(cum, p, prec), p < pow2(prec)
    ensures false
{}
proof fn lemma_push_pop_reach(c: Cfg, a: Ans, cum: nat, p: nat, prec: nat)
    requires cfg_ok(c, prec), inv(c, a), entry_ok(cum, p, prec), cum <= a.state % pow2(prec) < cum + p,
    ensures false
{}
proof fn lemma_history_reach(c: Cfg, a: Ans, h: Hist)
    requires inv(c, a), hist_ok(c, h), h is Node
    ensures false
{}

} // verus!
fn main() {}
