// Layer A: seal rule at State = 2 Words (included by lemmas_seal.rs and lemmas_range_bridge.rs)
// seal at the level of the decoder window, State = 2 Words  (sb == 2*wb, TH == W)
// window = first sb/wb = 2 words after the pending words: [pw, x] where x = 0 (two seal words) or arbitrary suffix word (one seal word)
// Normal situation: lower + range < M; no wrap anywhere.
pub proof fn lemma_seal_normal(wb: nat, lower: nat, range: nat, x: nat)
    requires wb >= 1, pow2(wb) <= range, lower + range < pow2(2 * wb), x < pow2(wb)
    ensures ({
        let th = pow2(wb); let m = pow2(2 * wb);
        let point = (lower + th - 1) as nat; let pw = point / th;
        let two = (lower + range) / th == pw;
        let window = pw * th + (if two { 0 } else { x });
        lower <= window && window < lower + range && pw < th
    })
{
    let th = pow2(wb); let m = pow2(2 * wb);
    lemma_pow2_pos(wb); lemma_pow2_adds(wb, wb); assert(wb + wb == 2 * wb);
    let point = (lower + th - 1) as nat; let pw = point / th;
    lemma_fundamental_div_mod(point as int, th as int); lemma_mod_bound(point as int, th as int);
    lemma_mul_is_commutative(th as int, pw as int);
    // pw*th <= point < pw*th + th ; pw*th >= point - (th-1) = lower
    assert(pw * th >= lower);
    let up = (lower + range) as nat; let uw = up / th;
    lemma_fundamental_div_mod(up as int, th as int); lemma_mod_bound(up as int, th as int);
    lemma_mul_is_commutative(th as int, uw as int);
    if pw >= th { lemma_mul_inequality(th as int, pw as int, th as int); }
    if uw != pw {
        // up >= point + 1 > pw*th  => uw >= pw ; uw != pw => uw >= pw+1 => up >= (pw+1)*th
        if uw < pw { lemma_mul_inequality((uw + 1) as int, pw as int, th as int); lemma_mul_is_distributive_add_other_way(th as int, uw as int, 1); }
        lemma_mul_inequality((pw + 1) as int, uw as int, th as int); lemma_mul_is_distributive_add_other_way(th as int, pw as int, 1);
    }
}


proof fn lemma_seal_normal_reach(wb: nat, lower: nat, range: nat, x: nat)
    requires wb >= 1, pow2(wb) <= range, lower + range < pow2(2 * wb), x < pow2(wb)
    ensures false
{}
// General seal lemma at State = 2 Words, all situations (C11 / C02).
// M = 2^(2wb), TH = W = 2^wb.  The decoder window after the held-back words consists of the
// point word followed by: the zero word if seal wrote two words, otherwise an ARBITRARY word x.
// `carry` = the sealing point wrapped (then the held-back words were written as first+1, 0, ...,
// which adds M to the value denoted by held-back words ++ window).
pub open spec fn seal_window(wb: nat, lower: nat, range: nat, x: nat) -> (nat, bool) {
    let th = pow2(wb); let m = pow2(2 * wb);
    let point = (lower + th - 1) as nat;
    let carry = point >= m;
    let pw = (point % m) / th;
    let two = ((lower + range) % m) / th == pw;
    ((if carry { m } else { 0 }) + pw * th + (if two { 0 } else { x }), carry)
}

pub proof fn lemma_seal_window(wb: nat, lower: nat, range: nat, x: nat)
    requires wb >= 1, pow2(wb) <= range < pow2(2 * wb), lower < pow2(2 * wb), x < pow2(wb)
    ensures ({
        let (v, carry) = seal_window(wb, lower, range, x);
        &&& lower <= v < lower + range
        &&& carry ==> lower + range >= pow2(2 * wb)      // a carry can only be pending in the inverted situation
        &&& (((lower + th_of(wb) - 1) as nat) % pow2(2 * wb)) / th_of(wb) < pow2(wb)
    })
{
    let th = pow2(wb); let m = pow2(2 * wb);
    lemma_pow2_pos(wb); lemma_pow2_adds(wb, wb); assert(wb + wb == 2 * wb);
    assert(m == th * th);
    let point = (lower + th - 1) as nat;
    let up = lower + range;
    if point >= m {
        // wrapped: point' = point - m < th  => pw = 0 ; lower > m - th ; lower + range >= m
        let pp = (point - m) as nat;
        lemma_mod_sub_multiples_vanish(point as int, m as int); lemma_small_mod(pp, m);
        assert(point % m == pp);
        assert(pp < th);
        lemma_small_mod(pp, th); lemma_fundamental_div_mod(pp as int, th as int); lemma_mod_bound(pp as int, th as int);
        assert(pp / th == 0) by { if pp / th >= 1 { lemma_mul_inequality(1, (pp / th) as int, th as int); lemma_mul_is_commutative(th as int, (pp / th) as int); } }
        // up >= m and up < 2m
        let upp = (up - m) as nat;
        lemma_mod_sub_multiples_vanish(up as int, m as int); lemma_small_mod(upp, m);
        assert(up % m == upp);
        lemma_fundamental_div_mod(upp as int, th as int); lemma_mod_bound(upp as int, th as int);
        if upp / th != 0 {
            // one word, arbitrary x < th : need m + x < lower + range  i.e.  x < upp ; upp >= th
            lemma_mul_inequality(1, (upp / th) as int, th as int); lemma_mul_is_commutative(th as int, (upp / th) as int);
        }
    } else {
        lemma_small_mod(point, m);
        let pw = point / th;
        lemma_fundamental_div_mod(point as int, th as int); lemma_mod_bound(point as int, th as int);
        lemma_mul_is_commutative(th as int, pw as int);
        assert(pw < th) by { if pw >= th { lemma_mul_inequality(th as int, pw as int, th as int); } }
        assert(pw * th >= lower);
        if up < m {
            lemma_small_mod(up, m);
            let uw = up / th;
            lemma_fundamental_div_mod(up as int, th as int); lemma_mod_bound(up as int, th as int);
            lemma_mul_is_commutative(th as int, uw as int);
            if uw != pw {
                if uw < pw { lemma_mul_inequality((uw + 1) as int, pw as int, th as int); lemma_mul_is_distributive_add_other_way(th as int, uw as int, 1); }
                lemma_mul_inequality((pw + 1) as int, uw as int, th as int); lemma_mul_is_distributive_add_other_way(th as int, pw as int, 1);
            }
        } else {
            // inverted without carry: (pw+1)*th <= m <= lower + range, so any second word is fine
            lemma_mul_inequality((pw + 1) as int, th as int, th as int); lemma_mul_is_distributive_add_other_way(th as int, pw as int, 1);
        }
    }
}
pub open spec fn th_of(wb: nat) -> nat { pow2(wb) }
proof fn lemma_seal_window_reach(wb: nat, lower: nat, range: nat, x: nat)
    requires wb >= 1, pow2(wb) <= range < pow2(2 * wb), lower < pow2(2 * wb), x < pow2(wb), lower + pow2(wb) - 1 >= pow2(2 * wb)
    ensures false
{}
