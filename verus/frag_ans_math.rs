// Layer A (math) spec of streaming rANS and its lemmas; included by lemmas_ans.rs and the ANS unit.
// ---------- width-parametric math spec of streaming rANS ----------
pub struct Cfg { pub wb: nat, pub sb: nat }   // word bits, state bits
pub open spec fn cfg_ok(c: Cfg, prec: nat) -> bool { c.wb >= 1 && prec >= 1 && prec <= c.wb && c.sb >= c.wb + prec && c.sb >= 2 * c.wb }

pub struct Ans { pub bulk: Seq<nat>, pub state: nat }

pub open spec fn entry_ok(cum: nat, p: nat, prec: nat) -> bool { p >= 1 && cum + p <= pow2(prec) }

pub open spec fn inv(c: Cfg, a: Ans) -> bool {
    a.state < pow2(c.sb) && (a.bulk.len() > 0 ==> a.state >= pow2((c.sb - c.wb) as nat))
    && forall|i: int| 0 <= i < a.bulk.len() ==> a.bulk[i] < pow2(c.wb)
}

pub open spec fn push(c: Cfg, a: Ans, cum: nat, p: nat, prec: nat) -> Ans {
    let fl = a.state / pow2((c.sb - prec) as nat) >= p;
    let s = if fl { a.state / pow2(c.wb) } else { a.state };
    let bulk = if fl { a.bulk.push(a.state % pow2(c.wb)) } else { a.bulk };
    Ans { bulk, state: (s / p) * pow2(prec) + cum + s % p }
}

pub open spec fn pop(c: Cfg, a: Ans, cum: nat, p: nat, prec: nat) -> Ans {
    let q = a.state % pow2(prec);
    let s = (a.state / pow2(prec)) * p + (q - cum) as nat;
    if s < pow2((c.sb - c.wb) as nat) && a.bulk.len() > 0 {
        Ans { bulk: a.bulk.drop_last(), state: s * pow2(c.wb) + a.bulk.last() }
    } else {
        Ans { bulk: a.bulk, state: s }
    }
}

proof fn lemma_divmod_unique(x: int, d: int, q: int, r: int)
    requires d > 0, 0 <= r < d, x == q * d + r
    ensures x / d == q, x % d == r
{
    lemma_fundamental_div_mod_converse(x, d, q, r);
}

// core: head round trip without renormalisation
proof fn lemma_head_roundtrip(s: nat, cum: nat, p: nat, prec: nat)
    requires entry_ok(cum, p, prec)
    ensures ({
        let t = (s / p) * pow2(prec) + cum + s % p;
        &&& t % pow2(prec) == cum + s % p
        &&& t / pow2(prec) == s / p
        &&& (t / pow2(prec)) * p + ((t % pow2(prec)) - cum) == s
    })
{
    let w = pow2(prec) as int;
    lemma_pow2_pos(prec);
    let r = (s % p) as int;
    lemma_mod_bound(s as int, p as int);
    let t = ((s / p) * pow2(prec) + cum + s % p) as int;
    assert(0 <= cum + r < w);
    lemma_divmod_unique(t, w, (s / p) as int, cum + r);
    lemma_fundamental_div_mod(s as int, p as int);
    assert((s / p) * p == p * (s / p)) by { lemma_mul_is_commutative((s/p) as int, p as int); }
}


proof fn lemma_div_lt(x: nat, d: nat, b: nat)
    requires d > 0, x < b * d
    ensures x / d < b
{
    lemma_fundamental_div_mod(x as int, d as int);
    lemma_mod_bound(x as int, d as int);
    if x / d >= b {
        lemma_mul_inequality(b as int, (x / d) as int, d as int);
        assert(b * d <= (x / d) * d);
        lemma_mul_is_commutative((x/d) as int, d as int);
    }
}
proof fn lemma_div_ge(x: nat, d: nat, b: nat)
    requires d > 0, x >= b * d
    ensures x / d >= b
{
    lemma_fundamental_div_mod(x as int, d as int);
    lemma_mod_bound(x as int, d as int);
    if x / d < b {
        // x = d*(x/d) + r < d*(x/d) + d = d*(x/d+1) <= d*b
        lemma_mul_inequality((x / d + 1) as int, b as int, d as int);
        lemma_mul_is_distributive_add_other_way(d as int, (x/d) as int, 1);
        lemma_mul_is_commutative((x/d) as int, d as int);
        lemma_mul_is_commutative(b as int, d as int);
    }
}
proof fn lemma_div_ge_from_quot(x: nat, d: nat, b: nat)
    requires d > 0, x / d >= b
    ensures x >= b * d
{
    lemma_fundamental_div_mod(x as int, d as int);
    lemma_mod_bound(x as int, d as int);
    lemma_mul_inequality(b as int, (x / d) as int, d as int);
    lemma_mul_is_commutative((x/d) as int, d as int);
}
proof fn lemma_div_lt_from_quot(x: nat, d: nat, b: nat)
    requires d > 0, x / d < b
    ensures x < b * d
{
    lemma_fundamental_div_mod(x as int, d as int);
    lemma_mod_bound(x as int, d as int);
    lemma_mul_inequality((x / d + 1) as int, b as int, d as int);
    lemma_mul_is_distributive_add_other_way(d as int, (x/d) as int, 1);
    lemma_mul_is_commutative((x/d) as int, d as int);
}

pub proof fn lemma_pop_push(c: Cfg, a: Ans, cum: nat, p: nat, prec: nat)
    requires cfg_ok(c, prec), inv(c, a), entry_ok(cum, p, prec), p < pow2(prec)
    ensures pop(c, push(c, a, cum, p, prec), cum, p, prec) == a, inv(c, push(c, a, cum, p, prec))
{
    let W = pow2(c.wb); let P2 = pow2(prec);
    let hi = pow2((c.sb - prec) as nat);       // 2^(sb-P)
    let th = pow2((c.sb - c.wb) as nat);       // 2^(sb-wb)
    let k = pow2((c.sb - c.wb - prec) as nat); // 2^(sb-wb-P)
    lemma_pow2_pos(prec); lemma_pow2_pos(c.wb); lemma_pow2_pos((c.sb - prec) as nat); lemma_pow2_pos((c.sb - c.wb) as nat);
    lemma_pow2_pos((c.sb - c.wb - prec) as nat);
    lemma_pow2_adds((c.sb - c.wb) as nat, c.wb);      // th * W == 2^sb
    lemma_pow2_adds((c.sb - prec) as nat, prec);      // hi * P2 == 2^sb
    lemma_pow2_adds((c.sb - c.wb - prec) as nat, c.wb);   // k * W == hi
    lemma_pow2_adds((c.sb - c.wb - prec) as nat, prec);   // k * P2 == th
    let fl = a.state / hi >= p;
    let s = if fl { a.state / W } else { a.state };
    lemma_head_roundtrip(s, cum, p, prec);
    let b = push(c, a, cum, p, prec);
    let r = s % p;
    lemma_mod_bound(s as int, p as int);
    lemma_fundamental_div_mod(a.state as int, W as int);
    lemma_mod_bound(a.state as int, W as int);
    // bound: s < p * hi  (so that s/p < hi and new state < 2^sb)
    if fl {
        lemma_div_lt(a.state, W, th);           // s < th
        assert(th <= hi) by { if prec < c.wb { lemma_pow2_strictly_increases((c.sb - c.wb) as nat, (c.sb - prec) as nat); } }
        assert(s < p * hi) by { lemma_mul_inequality(1, p as int, hi as int); }
        // lower bound: a.state >= p*hi = p*k*W  => s >= p*k
        lemma_div_ge_from_quot(a.state, hi, p);
        assert(p * hi == (p * k) * W) by { lemma_mul_is_associative(p as int, k as int, W as int); }
        lemma_div_ge(a.state, W, p * k);
        assert(s >= k * p) by { lemma_mul_is_commutative(p as int, k as int); }
        lemma_div_ge(s, p, k);
    } else {
        lemma_div_lt_from_quot(a.state, hi, p);
        assert(s < p * hi);
        if a.bulk.len() > 0 {
            // s >= th = k * P2 >= k * p
            assert(k * p <= k * P2) by { lemma_mul_inequality(p as int, P2 as int, k as int); lemma_mul_is_commutative(k as int, p as int); lemma_mul_is_commutative(k as int, P2 as int); }
            lemma_div_ge(s, p, k);
        }
    }
    assert(s < hi * p) by { lemma_mul_is_commutative(p as int, hi as int); }
    lemma_div_lt(s, p, hi);
    // new state < 2^sb
    assert(b.state < pow2(c.sb)) by {
        assert((s / p) + 1 <= hi);
        lemma_mul_inequality((s / p + 1) as int, hi as int, P2 as int);
        lemma_mul_is_distributive_add_other_way(P2 as int, (s/p) as int, 1);
    }
    if fl || a.bulk.len() > 0 {
        assert(b.state >= th) by {
            lemma_mul_inequality(k as int, (s / p) as int, P2 as int);
        }
    }
    if fl {
        assert(b.bulk.drop_last() == a.bulk);
        assert(b.bulk.last() == a.state % W);
        assert(s * W == W * s) by { lemma_mul_is_commutative(s as int, W as int); }
    }
    assert(forall|i: int| 0 <= i < b.bulk.len() ==> b.bulk[i] < pow2(c.wb));
}

// C04: encode undoes decode (bits-back / surjectivity)
pub proof fn lemma_push_pop(c: Cfg, a: Ans, cum: nat, p: nat, prec: nat)
    requires cfg_ok(c, prec), inv(c, a), entry_ok(cum, p, prec),
             cum <= a.state % pow2(prec) < cum + p,
    ensures push(c, pop(c, a, cum, p, prec), cum, p, prec) == a, inv(c, pop(c, a, cum, p, prec))
{
    let W = pow2(c.wb); let P2 = pow2(prec);
    let hi = pow2((c.sb - prec) as nat);
    let th = pow2((c.sb - c.wb) as nat);
    let k = pow2((c.sb - c.wb - prec) as nat);
    lemma_pow2_pos(prec); lemma_pow2_pos(c.wb); lemma_pow2_pos((c.sb - prec) as nat); lemma_pow2_pos((c.sb - c.wb) as nat);
    lemma_pow2_pos((c.sb - c.wb - prec) as nat);
    lemma_pow2_adds((c.sb - c.wb) as nat, c.wb);
    lemma_pow2_adds((c.sb - prec) as nat, prec);
    lemma_pow2_adds((c.sb - c.wb - prec) as nat, c.wb);
    lemma_pow2_adds((c.sb - c.wb - prec) as nat, prec);
    let q = a.state % P2;
    let t = a.state / P2;
    let r = (q - cum) as nat;
    let s = t * p + r;               // state after the multiplication, before refill
    lemma_fundamental_div_mod(a.state as int, P2 as int);
    lemma_mod_bound(a.state as int, P2 as int);
    // s / p == t, s % p == r
    lemma_divmod_unique(s as int, p as int, t as int, r as int);
    // t < hi
    lemma_div_lt(a.state, P2, hi);
    // s < p * hi
    assert(s < p * hi) by {
        lemma_mul_inequality((t + 1) as int, hi as int, p as int);
        lemma_mul_is_distributive_add_other_way(p as int, t as int, 1);
        lemma_mul_is_commutative(t as int, p as int);
        lemma_mul_is_commutative(hi as int, p as int);
    }
    let b = pop(c, a, cum, p, prec);
    assert(P2 * t == t * P2) by { lemma_mul_is_commutative(P2 as int, t as int); }
    if s < th && a.bulk.len() > 0 {
        // refill happened: b.state = s*W + w ; need flush on push and recover
        let w = a.bulk.last();
        assert(w < W);
        // a.state >= th = k*P2 => t >= k => s >= k*p
        lemma_div_ge(a.state, P2, k);
        assert(s >= k * p) by { lemma_mul_inequality(k as int, t as int, p as int); }
        // b.state = s*W + w >= k*p*W = p*hi  => b.state / hi >= p
        assert(b.state >= p * hi) by {
            lemma_mul_inequality((k * p) as int, s as int, W as int);
            lemma_mul_is_associative(k as int, p as int, W as int);
            lemma_mul_is_commutative(k as int, p as int);
            lemma_mul_is_associative(p as int, k as int, W as int);
        }
        lemma_div_ge(b.state, hi, p);
        lemma_divmod_unique(b.state as int, W as int, s as int, w as int);
        assert(b.state < pow2(c.sb)) by {
            lemma_mul_inequality((s + 1) as int, th as int, W as int);
            lemma_mul_is_distributive_add_other_way(W as int, s as int, 1);
            lemma_mul_is_commutative(s as int, W as int);
        }
        assert(b.state >= th) by { assert(p * hi >= hi) by { lemma_mul_inequality(1, p as int, hi as int); } 
            if prec < c.wb { lemma_pow2_strictly_increases((c.sb - c.wb) as nat, (c.sb - prec) as nat); } }
        assert(b.bulk.push(w) == a.bulk);
    } else {
        // no refill: b.state = s < p*hi => no flush on push
        lemma_div_lt(s, hi, p);
        if a.bulk.len() > 0 { assert(s >= th); }
        assert(s < pow2(c.sb)) by { lemma_mul_inequality(p as int, P2 as int, hi as int); lemma_mul_is_commutative(P2 as int, hi as int);} 
    }
}

// C12: potential function step (ANS).  phi = max(state, 2^(sb-wb)) * 2^(wb*|bulk|)
pub open spec fn hd(c: Cfg, a: Ans) -> nat { if a.state >= pow2((c.sb - c.wb) as nat) { a.state } else { pow2((c.sb - c.wb) as nat) } }

pub proof fn lemma_potential_step_noflush(c: Cfg, s: nat, cum: nat, p: nat, prec: nat)
    requires cfg_ok(c, prec), entry_ok(cum, p, prec), p < pow2(prec), s < pow2(c.sb), s / pow2((c.sb - prec) as nat) < p
    ensures ({
        let th = pow2((c.sb - c.wb) as nat);
        let k = pow2((c.sb - c.wb - prec) as nat);
        let s0 = if s >= th { s } else { th };
        let t = (s / p) * pow2(prec) + cum + s % p;
        let t0 = if t >= th { t } else { th };
        t0 * p * k <= s0 * pow2(prec) * (k + 1)
    })
{
    let P2 = pow2(prec); let th = pow2((c.sb - c.wb) as nat); let k = pow2((c.sb - c.wb - prec) as nat);
    lemma_pow2_pos(prec); lemma_pow2_pos((c.sb - c.wb) as nat); lemma_pow2_pos((c.sb - c.wb - prec) as nat);
    lemma_pow2_adds((c.sb - c.wb - prec) as nat, prec);   // k*P2 == th
    let s0 = if s >= th { s } else { th };
    let t = (s / p) * P2 + cum + s % p;
    let t0 = if t >= th { t } else { th };
    lemma_fundamental_div_mod(s as int, p as int);
    lemma_mod_bound(s as int, p as int);
    // t*p < (s+p)*P2  and  p*k <= s0
    assert(p * k <= s0) by { lemma_mul_inequality(p as int, P2 as int, k as int); lemma_mul_is_commutative(P2 as int, k as int); lemma_mul_is_commutative(p as int, k as int); }
    assert(t * p <= (s + p) * P2) by {
        // t < (s/p + 1) * P2
        assert(t < (s / p + 1) * P2) by { lemma_mul_is_distributive_add_other_way(P2 as int, (s/p) as int, 1); }
        lemma_mul_inequality(t as int, ((s / p + 1) * P2) as int, p as int);
        // (s/p+1)*P2*p = (s/p*p + p)*P2 <= (s + p)*P2
        lemma_mul_is_associative((s / p + 1) as int, P2 as int, p as int);
        lemma_mul_is_commutative(P2 as int, p as int);
        lemma_mul_is_associative((s / p + 1) as int, p as int, P2 as int);
        lemma_mul_is_distributive_add_other_way(p as int, (s / p) as int, 1);
        lemma_mul_is_commutative((s/p) as int, p as int);
        assert((s / p + 1) * p <= s + p);
        lemma_mul_inequality(((s / p + 1) * p) as int, (s + p) as int, P2 as int);
    }
    if t < th {
        // t0 = th = k*P2
        assert(th * p * k <= s0 * P2 * (k + 1)) by {
            lemma_mul_inequality(th as int, s0 as int, p as int);          // th*p <= s0*p
            lemma_mul_inequality(p as int, P2 as int, s0 as int);          // p*s0 <= P2*s0
            lemma_mul_is_commutative(p as int, s0 as int); lemma_mul_is_commutative(P2 as int, s0 as int);
            assert(th * p <= s0 * P2);
            lemma_mul_inequality((th * p) as int, (s0 * P2) as int, k as int);
            lemma_mul_inequality(k as int, (k + 1) as int, (s0 * P2) as int);
            lemma_mul_is_commutative(k as int, (s0 * P2) as int); lemma_mul_is_commutative((k + 1) as int, (s0 * P2) as int);
        }
    } else {
        assert(t * p * k <= s0 * P2 * (k + 1)) by {
            lemma_mul_inequality((t * p) as int, ((s + p) * P2) as int, k as int);  // t*p*k <= (s+p)*P2*k
            // (s+p)*P2*k == (s*k + p*k)*P2
            lemma_mul_is_associative((s + p) as int, P2 as int, k as int);
            lemma_mul_is_commutative(P2 as int, k as int);
            lemma_mul_is_associative((s + p) as int, k as int, P2 as int);
            lemma_mul_is_distributive_add_other_way(k as int, s as int, p as int);
            assert((s + p) * P2 * k == (s * k + p * k) * P2);
            // s*k + p*k <= s0*k + s0 = s0*(k+1)
            lemma_mul_inequality(s as int, s0 as int, k as int);
            lemma_mul_is_distributive_add(s0 as int, k as int, 1);
            assert(s * k + p * k <= s0 * (k + 1));
            lemma_mul_inequality((s * k + p * k) as int, (s0 * (k + 1)) as int, P2 as int);
            lemma_mul_is_associative(s0 as int, (k + 1) as int, P2 as int);
            lemma_mul_is_commutative((k + 1) as int, P2 as int);
            lemma_mul_is_associative(s0 as int, P2 as int, (k + 1) as int);
        }
    }

}

