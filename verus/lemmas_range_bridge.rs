// Layer A: the range encoder's bookkeeping with held-back words refines the interval step
//   lemma_bridge (C02/C06): abs(cstep(s)) == enc_step(abs(s)) and cinv(cstep(s)) for ANY number of held-back words
use vstd::prelude::*;
use vstd::arithmetic::power2::*;
use vstd::arithmetic::div_mod::*;
use vstd::arithmetic::mul::*;

verus! {

//@INCLUDE frag_range_math.rs

proof fn lemma_val_push(c: Cfg, ws: Seq<nat>, w: nat)
    ensures val(c, ws.push(w)) == val(c, ws) * W(c) + w
{ assert(ws.push(w).drop_last() == ws); }


proof fn lemma_val_rep0(c: Cfg, ws: Seq<nat>, k: nat)
    ensures val(c, ws + rep(0, k)) == val(c, ws) * pow2(c.wb * k)
    decreases k
{
    if k == 0 {
        assert(ws + rep(0, 0) =~= ws); lemma2_to64(); assert(c.wb * 0 == 0); assert(pow2(c.wb * k) == 1); lemma_mul_basics(val(c, ws) as int);
    } else {
        let t = ws + rep(0, k);
        assert(t.drop_last() =~= ws + rep(0, (k - 1) as nat));
        assert(t.last() == 0);
        lemma_val_rep0(c, ws, (k - 1) as nat);
        assert(c.wb * k == c.wb * ((k - 1) as nat) + c.wb) by { lemma_mul_is_distributive_add(c.wb as int, (k - 1) as int, 1); }
        lemma_pow2_adds(c.wb * ((k - 1) as nat), c.wb);
        lemma_mul_is_associative(val(c, ws) as int, pow2(c.wb * ((k - 1) as nat)) as int, W(c) as int);
        assert(t.len() > 0);
        assert(val(c, t) == val(c, t.drop_last()) * W(c) + t.last());
        assert(val(c, t.drop_last()) == val(c, ws) * pow2(c.wb * ((k - 1) as nat)));
        assert(pow2(c.wb * k) == pow2(c.wb * ((k - 1) as nat)) * W(c));
    }
}
proof fn lemma_val_repff(c: Cfg, ws: Seq<nat>, k: nat)
    ensures val(c, ws + rep((W(c) - 1) as nat, k)) + 1 == (val(c, ws) + 1) * pow2(c.wb * k)
    decreases k
{
    lemma_pow2_pos(c.wb);
    if k == 0 {
        assert(ws + rep((W(c) - 1) as nat, 0) =~= ws); lemma2_to64(); assert(c.wb * 0 == 0); assert(pow2(c.wb * k) == 1); lemma_mul_basics((val(c, ws) + 1) as int);
    } else {
        let f = (W(c) - 1) as nat;
        let t = ws + rep(f, k);
        assert(t.drop_last() =~= ws + rep(f, (k - 1) as nat));
        assert(t.last() == f);
        lemma_val_repff(c, ws, (k - 1) as nat);
        assert(c.wb * k == c.wb * ((k - 1) as nat) + c.wb) by { lemma_mul_is_distributive_add(c.wb as int, (k - 1) as int, 1); }
        lemma_pow2_adds(c.wb * ((k - 1) as nat), c.wb);
        let a = val(c, t.drop_last());
        // val(t)+1 = a*W + W-1 + 1 = (a+1)*W
        assert(val(c, t) + 1 == (a + 1) * W(c)) by { lemma_mul_is_distributive_add_other_way(W(c) as int, a as int, 1); }
        lemma_mul_is_associative((val(c, ws) + 1) as int, pow2(c.wb * ((k - 1) as nat)) as int, W(c) as int);
    }
}

// facts about the narrowing step shared by all cases
proof fn lemma_narrow(c: Cfg, range: nat, cum: nat, p: nat, prec: nat)
    requires cfg_ok(c, prec), entry_ok(cum, p, prec), TH(c) <= range < M(c)
    ensures ({ let scale = range / pow2(prec); let r1 = scale * p;
        &&& scale >= 1 && r1 >= 1
        &&& scale * cum + r1 <= range
        &&& r1 * W(c) >= TH(c)
        &&& (r1 < TH(c) ==> r1 * W(c) < M(c))
        &&& M(c) == TH(c) * W(c) })
{
    let P2 = pow2(prec); let scale = range / P2; let r1 = scale * p;
    lemma_pow2_pos(prec); lemma_pow2_pos(c.wb); lemma_pow2_pos((c.sb - c.wb) as nat);
    lemma_pow2_adds((c.sb - c.wb) as nat, c.wb);
    lemma_pow2_adds((c.sb - c.wb - prec) as nat, prec);
    let k = pow2((c.sb - c.wb - prec) as nat); lemma_pow2_pos((c.sb - c.wb - prec) as nat);
    lemma_fundamental_div_mod(range as int, P2 as int); lemma_mod_bound(range as int, P2 as int);
    // scale >= k >= 1
    assert(scale >= k) by { if scale < k { lemma_mul_inequality((scale + 1) as int, k as int, P2 as int); lemma_mul_is_distributive_add_other_way(P2 as int, scale as int, 1); lemma_mul_is_commutative(P2 as int, scale as int);} }
    assert(r1 >= scale) by { lemma_mul_inequality(1, p as int, scale as int); lemma_mul_is_commutative(scale as int, p as int); }
    assert(scale * cum + r1 <= range) by {
        lemma_mul_is_distributive_add(scale as int, cum as int, p as int);
        lemma_mul_inequality((cum + p) as int, P2 as int, scale as int);
        lemma_mul_is_commutative(scale as int, (cum + p) as int); lemma_mul_is_commutative(scale as int, P2 as int);
        lemma_mul_is_commutative(P2 as int, scale as int);
    }
    // r1*W >= k*W >= k*P2 = TH
    assert(r1 * W(c) >= TH(c)) by {
        lemma_mul_inequality(k as int, r1 as int, W(c) as int);
        if prec < c.wb { lemma_pow2_strictly_increases(prec, c.wb); }
        lemma_mul_inequality(P2 as int, W(c) as int, k as int);
        lemma_mul_is_commutative(k as int, P2 as int); lemma_mul_is_commutative(k as int, W(c) as int);
    }
    if r1 < TH(c) { lemma_mul_strict_inequality(r1 as int, TH(c) as int, W(c) as int); }
}

// (x*W) % M == (x % TH) * W and x == (x/TH)*TH + x%TH
proof fn lemma_shift(c: Cfg, x: nat)
    requires c.sb >= 2 * c.wb, c.wb >= 1, x < M(c)
    ensures (x * W(c)) % M(c) == (x % TH(c)) * W(c), x / TH(c) < W(c), x == (x / TH(c)) * TH(c) + x % TH(c), x % TH(c) < TH(c), M(c) == TH(c) * W(c)
{
    lemma_pow2_pos(c.wb); lemma_pow2_pos((c.sb - c.wb) as nat);
    lemma_pow2_adds((c.sb - c.wb) as nat, c.wb);
    lemma_truncate_middle(x as int, W(c) as int, TH(c) as int);
    lemma_mul_is_commutative(W(c) as int, x as int); lemma_mul_is_commutative(W(c) as int, TH(c) as int);
    lemma_mul_is_commutative(W(c) as int, (x % TH(c)) as int);
    lemma_fundamental_div_mod(x as int, TH(c) as int); lemma_mod_bound(x as int, TH(c) as int);
    lemma_mul_is_commutative(TH(c) as int, (x / TH(c)) as int);
    if x / TH(c) >= W(c) { lemma_mul_inequality(W(c) as int, (x / TH(c)) as int, TH(c) as int); }
}

// Normal-situation tail: given bulk b1 with l1 = val(b1)*M + nl, nl + r1 < M
proof fn lemma_normal_tail(c: Cfg, b1: Seq<nat>, nl: nat, r1: nat)
    requires c.sb >= 2 * c.wb, c.wb >= 1, nl + r1 < M(c), r1 >= 1, r1 * W(c) >= TH(c), r1 < TH(c) ==> r1 * W(c) < M(c)
    ensures ({
        let l1 = val(c, b1) * M(c) + nl;
        let lower2 = (nl * W(c)) % M(c); let range2 = r1 * W(c); let lw = nl / TH(c);
        &&& (r1 < TH(c) && lower2 + range2 < M(c)) ==> val(c, b1.push(lw)) * M(c) + lower2 == l1 * W(c) && lw < W(c)
        &&& (r1 < TH(c) && lower2 + range2 >= M(c)) ==> pend_val(c, val(c, b1), 1, lw) * M(c) + lower2 == l1 * W(c) && lw + 1 < W(c)
    })
{
    lemma_shift(c, nl);
    let b = val(c, b1); let lw = nl / TH(c); let lo = nl % TH(c);
    lemma_val_push(c, b1, lw);
    lemma2_to64(); assert(c.wb * 0 == 0);
    // (b*W + lw)*M + lo*W == (b*M + nl)*W
    assert((b * W(c) + lw) * M(c) + lo * W(c) == (b * M(c) + nl) * W(c)) by {
        lemma_mul_is_distributive_add_other_way(M(c) as int, (b * W(c)) as int, lw as int);
        lemma_mul_is_associative(b as int, W(c) as int, M(c) as int);
        lemma_mul_is_commutative(W(c) as int, M(c) as int);
        lemma_mul_is_associative(b as int, M(c) as int, W(c) as int);
        // lw*M = lw*TH*W
        lemma_mul_is_associative(lw as int, TH(c) as int, W(c) as int);
        lemma_mul_is_distributive_add_other_way(W(c) as int, (lw * TH(c)) as int, lo as int);
        lemma_mul_is_distributive_add_other_way(W(c) as int, (b * M(c)) as int, nl as int);
    }
    if r1 < TH(c) && (nl * W(c)) % M(c) + r1 * W(c) >= M(c) {
        // (lo + r1)*W >= TH*W => lo + r1 >= TH => nl + r1 >= (lw+1)*TH => lw+1 < W
        lemma_mul_is_distributive_add_other_way(W(c) as int, lo as int, r1 as int);
        if lo + r1 < TH(c) { lemma_mul_strict_inequality((lo + r1) as int, TH(c) as int, W(c) as int); }
        assert((lw + 1) * TH(c) <= nl + r1) by { lemma_mul_is_distributive_add_other_way(TH(c) as int, lw as int, 1); }
        if lw + 1 >= W(c) { lemma_mul_inequality(W(c) as int, (lw + 1) as int, TH(c) as int); lemma_mul_is_commutative(W(c) as int, TH(c) as int); }
        assert(pend_val(c, b, 1, lw) == b * W(c) + lw) by { assert(c.wb * ((1 - 1) as nat) == 0); }
    }
}


pub proof fn lemma_bridge(c: Cfg, s: CEnc, cum: nat, p: nat, prec: nat)
    requires cfg_ok(c, prec), cinv(c, s), entry_ok(cum, p, prec)
    ensures abs(c, cstep(c, s, cum, p, prec)) == enc_step(c, abs(c, s), cum, p, prec), cinv(c, cstep(c, s, cum, p, prec))
{
    let scale = s.range / pow2(prec); let r1 = scale * p; let sc = scale * cum;
    lemma_narrow(c, s.range, cum, p, prec);
    lemma_pow2_pos(c.sb); lemma_pow2_pos(c.wb);
    let nlt = s.lower + sc; let nl = nlt % M(c);
    let b = val(c, s.bulk);
    let t = cstep(c, s, cum, p, prec);
    match s.sit {
        Sit::Normal => {
            assert(nlt < M(c)); lemma_small_mod(nlt, M(c));
            lemma_normal_tail(c, s.bulk, nl, r1);
            if r1 < TH(c) { lemma_shift(c, nl); }
        },
        Sit::Inverted(n, first) => {
            let wn = pow2(c.wb * ((n - 1) as nat));
            lemma_pow2_pos(c.wb * ((n - 1) as nat));
            let pv = pend_val(c, b, n, first);
            assert((b * W(c) + first + 1) * wn >= 1) by { lemma_mul_inequality(1, (b * W(c) + first + 1) as int, wn as int); }
            if nl + r1 < M(c) {
                // resolves
                let carry = nl < s.lower;
                if nlt >= M(c) {
                    // nl = nlt - M
                    assert(nl == nlt - M(c)) by { lemma_mod_sub_multiples_vanish(nlt as int, M(c) as int); lemma_small_mod((nlt - M(c)) as nat, M(c)); }
                    assert(carry);
                } else {
                    lemma_small_mod(nlt, M(c));
                    assert(!carry);
                }
                let b1 = if carry { s.bulk.push(first + 1) + rep(0, (n - 1) as nat) } else { s.bulk.push((first) as nat) + rep((W(c) - 1) as nat, (n - 1) as nat) };
                if carry {
                    lemma_val_push(c, s.bulk, first + 1);
                    lemma_val_rep0(c, s.bulk.push(first + 1), (n - 1) as nat);
                    assert(val(c, b1) == pv + 1);
                    assert(val(c, b1) * M(c) + nl == pv * M(c) + s.lower + sc) by { lemma_mul_is_distributive_add_other_way(M(c) as int, pv as int, 1); }
                } else {
                    lemma_val_push(c, s.bulk, first);
                    lemma_val_repff(c, s.bulk.push(first), (n - 1) as nat);
                    assert(val(c, b1) == pv);
                }
                assert(b1.len() == s.bulk.len() + n);
                lemma_normal_tail(c, b1, nl, r1);
                if r1 < TH(c) { lemma_shift(c, nl); }
            } else {
                // stays inverted; then no wrap of nlt
                if nlt >= M(c) {
                    assert(nl == nlt - M(c)) by { lemma_mod_sub_multiples_vanish(nlt as int, M(c) as int); lemma_small_mod((nlt - M(c)) as nat, M(c)); }
                    assert(false);
                }
                lemma_small_mod(nlt, M(c));
                if r1 < TH(c) {
                    lemma_shift(c, nl);
                    let lw = nl / TH(c); let lo = nl % TH(c);
                    // top word is all ones
                    assert(lw == W(c) - 1) by {
                        if lw + 1 < W(c) { lemma_mul_inequality((lw + 1) as int, (W(c) - 1) as int, TH(c) as int); lemma_mul_is_distributive_add_other_way(TH(c) as int, lw as int, 1);
                            lemma_mul_is_distributive_sub_other_way(TH(c) as int, W(c) as int, 1); lemma_mul_is_commutative(W(c) as int, TH(c) as int); }
                    }
                    // pend_val(b, n+1, first) = (pv+1)*W - 1
                    let pv2 = pend_val(c, b, n + 1, first);
                    assert(pv2 + 1 == (pv + 1) * W(c)) by {
                        assert(c.wb * (n as nat) == c.wb * ((n - 1) as nat) + c.wb) by { lemma_mul_is_distributive_add(c.wb as int, (n - 1) as int, 1); }
                        lemma_pow2_adds(c.wb * ((n - 1) as nat), c.wb);
                        lemma_mul_is_associative((b * W(c) + first + 1) as int, wn as int, W(c) as int);
                        lemma_pow2_pos(c.wb * n);
                        lemma_mul_inequality(1, (b * W(c) + first + 1) as int, pow2(c.wb * n) as int);
                    }
                    // (pv2)*M + lo*W == (pv*M + nl)*W
                    assert(pv2 * M(c) + lo * W(c) == (pv * M(c) + nl) * W(c)) by {
                        // pv2 = pv*W + W - 1
                        lemma_mul_is_distributive_add_other_way(W(c) as int, pv as int, 1);
                        assert(pv2 == pv * W(c) + (W(c) - 1));
                        lemma_mul_is_distributive_add_other_way(M(c) as int, (pv * W(c)) as int, (W(c) - 1) as int);
                        lemma_mul_is_associative(pv as int, W(c) as int, M(c) as int);
                        lemma_mul_is_commutative(W(c) as int, M(c) as int);
                        lemma_mul_is_associative(pv as int, M(c) as int, W(c) as int);
                        // (W-1)*M + lo*W == nl*W  with nl = (W-1)*TH + lo
                        lemma_mul_is_associative((W(c) - 1) as int, TH(c) as int, W(c) as int);
                        lemma_mul_is_distributive_add_other_way(W(c) as int, ((W(c) - 1) * TH(c)) as int, lo as int);
                        lemma_mul_is_distributive_add_other_way(W(c) as int, (pv * M(c)) as int, nl as int);
                    }
                    // invariant: lower2 + range2 >= M
                    assert(lo * W(c) + r1 * W(c) >= M(c)) by {
                        assert(lo + r1 >= TH(c)) by { lemma_mul_is_distributive_sub_other_way(TH(c) as int, W(c) as int, 1); lemma_mul_is_commutative(W(c) as int, TH(c) as int); }
                        lemma_mul_inequality(TH(c) as int, (lo + r1) as int, W(c) as int);
                        lemma_mul_is_distributive_add_other_way(W(c) as int, lo as int, r1 as int);
                    }
                }
            }
        },
    }
}


proof fn lemma_bridge_reach(c: Cfg, s: CEnc, cum: nat, p: nat, prec: nat)
    requires cfg_ok(c, prec), cinv(c, s), entry_ok(cum, p, prec), s.sit is Inverted
    ensures false
{}
// =====================================================================================
// C11 / C02, composition: the words written by sealing (math copy `seal_seq` of the documented
// sealing rule), followed by ANY further words, denote data inside the encoder's interval.
// State = 2 Words.  (The machine-level `seal_words` of the range_seal unit is this function on
// machine values.)
// =====================================================================================
pub mod imath {
use vstd::prelude::*;
use vstd::arithmetic::power2::*;
verus! {
//@INCLUDE frag_range_interval.rs
}
}
pub mod smath {
use vstd::prelude::*;
use vstd::arithmetic::power2::*;
use vstd::arithmetic::div_mod::*;
use vstd::arithmetic::mul::*;
verus! {
//@INCLUDE frag_seal.rs
}
}
pub open spec fn icfg(c: Cfg) -> imath::Cfg { imath::Cfg { wb: c.wb, sb: c.sb } }
pub open spec fn ienc(e: Enc) -> imath::Enc { imath::Enc { l: e.l, r: e.r, n: e.n } }

proof fn lemma_val_concat1(c: Cfg, a: Seq<nat>, x: nat) ensures val(c, a + seq![x]) == val(c, a) * W(c) + x
{ assert(a + seq![x] =~= a.push(x)); lemma_val_push(c, a, x); }

proof fn lemma_pv_is_val(c: Cfg, d: Seq<nat>, m: nat)
    requires m <= d.len()
    ensures imath::pv(icfg(c), d, m) == val(c, d.subrange(0, m as int))
    decreases m
{
    if m == 0 { assert(d.subrange(0, 0).len() == 0); }
    else {
        lemma_pv_is_val(c, d, (m - 1) as nat);
        let t = d.subrange(0, m as int);
        assert(t.drop_last() =~= d.subrange(0, m - 1));
        assert(t.last() == d[m - 1]);
    }
}

pub proof fn thm_seal_contains(c: Cfg, s: CEnc, sigma: Seq<nat>)
    requires c.wb >= 1, c.sb == 2 * c.wb, cinv(c, s), forall|i: int| 0 <= i < sigma.len() ==> sigma[i] < W(c)
    ensures imath::contains(icfg(c), ienc(abs(c, s)), s.bulk + seal_seq(c, s) + sigma)
{
    let w = W(c); let m = M(c); let th = TH(c);
    lemma_pow2_pos(c.wb); lemma_pow2_adds(c.wb, c.wb); assert(c.wb + c.wb == 2 * c.wb);
    assert((c.sb - c.wb) as nat == c.wb);
    assert(th == w && m == w * w);
    assert(imath::nwin(icfg(c)) == 2) by { lemma_div_multiples_vanish(2, c.wb as int); lemma_mul_is_commutative(2, c.wb as int); }
    let d = s.bulk + seal_seq(c, s) + sigma;
    let pend = seal_pending(c, s);
    let npend: nat = match s.sit { Sit::Normal => 0, Sit::Inverted(n, _) => n };
    assert(pend.len() == npend);
    let pw = seal_pw(c, s); let two = seal_two(c, s); let carry = seal_carry(c, s);
    let x: nat = if two { 0 } else if sigma.len() > 0 { sigma[0] } else { 0 };
    let e = abs(c, s);
    let mm = e.n + 2;
    assert(e.n == s.bulk.len() + npend);
    // the seal window lemma
    smath::lemma_seal_window(c.wb, s.lower, s.range, x);
    assert(smath::th_of(c.wb) == th);
    let (v, cy) = smath::seal_window(c.wb, s.lower, s.range, x);
    assert(cy == carry);
    assert(v == (if carry { m } else { 0 }) + pw * th + x);
    // value of the first mm words of d (zero padded)
    let base = s.bulk + pend;
    let pvv = imath::pv(icfg(c), d, mm);
    assert(pvv == (val(c, base) * w + pw) * w + x) by {
        if mm <= d.len() {
            lemma_pv_is_val(c, d, mm);
            let t = d.subrange(0, mm as int);
            assert(t =~= base + seq![pw] + seq![x]);
            lemma_val_concat1(c, base + seq![pw], x);
            lemma_val_concat1(c, base, pw);
        } else {
            // one seal word and no suffix: the missing word is padded with zero
            assert(!two && sigma.len() == 0 && d.len() + 1 == mm);
            lemma_pv_is_val(c, d, d.len());
            assert(d.subrange(0, d.len() as int) =~= base + seq![pw]);
            lemma_val_concat1(c, base, pw);
        }
    }
    // value of bulk ++ pending
    let b = val(c, s.bulk);
    match s.sit {
        Sit::Normal => {
            assert(base =~= s.bulk);
            assert(!carry);   // normal: lower + range < M and range >= TH
        }
        Sit::Inverted(n, first) => {
            if carry {
                assert(base =~= s.bulk.push(first + 1) + rep(0, (n - 1) as nat));
                lemma_val_rep0(c, s.bulk.push(first + 1), (n - 1) as nat);
                lemma_val_push(c, s.bulk, first + 1);
                let kk = pow2(c.wb * ((n - 1) as nat));
                lemma_pow2_pos(c.wb * ((n - 1) as nat));
                assert((b * w + first + 1) * kk >= 1) by (nonlinear_arith) requires kk >= 1;
                assert(val(c, base) == pend_val(c, b, n, first) + 1);
            } else {
                assert(base =~= s.bulk.push(first) + rep((w - 1) as nat, (n - 1) as nat));
                lemma_val_repff(c, s.bulk.push(first), (n - 1) as nat);
                lemma_val_push(c, s.bulk, first);
                let kk = pow2(c.wb * ((n - 1) as nat));
                lemma_pow2_pos(c.wb * ((n - 1) as nat));
                assert((b * w + first + 1) * kk >= 1) by (nonlinear_arith) requires kk >= 1;
                assert(val(c, base) == pend_val(c, b, n, first));
            }
        }
    }
    // assemble: pvv == PV*M + v  and  L == PV*M + lower
    let pvb: nat = match s.sit { Sit::Normal => b, Sit::Inverted(n, first) => pend_val(c, b, n, first) };
    assert(val(c, base) == pvb + (if carry { 1nat } else { 0nat }));
    assert(pvv == pvb * m + v) by (nonlinear_arith)
        requires pvv == (val(c, base) * w + pw) * w + x, val(c, base) == pvb + (if carry { 1nat } else { 0nat }), m == w * w, th == w, v == (if carry { m } else { 0 }) + pw * th + x;
    assert(e.l == pvb * m + s.lower);
}
proof fn thm_seal_contains_reach(c: Cfg, s: CEnc, sigma: Seq<nat>)
    requires c.wb >= 1, c.sb == 2 * c.wb, cinv(c, s), forall|i: int| 0 <= i < sigma.len() ==> sigma[i] < W(c), s.sit is Inverted, seal_carry(c, s)
    ensures false
{}

} // verus!
fn main() {}
