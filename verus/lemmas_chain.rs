// Layer A: chain coder remainders side: encode undoes decode (flush <=> refill), head invariant kept (C13)
use vstd::prelude::*;
use vstd::arithmetic::power2::*;
use vstd::arithmetic::div_mod::*;
use vstd::arithmetic::mul::*;

verus! {
pub struct Cfg { pub wb: nat, pub sb: nat }
pub open spec fn cfg_ok(c: Cfg, prec: nat) -> bool { c.wb >= 1 && prec >= 1 && prec <= c.wb && c.sb >= c.wb + prec && c.sb >= 2 * c.wb }
pub open spec fn entry_ok(cum: nat, p: nat, prec: nat) -> bool { p >= 1 && cum + p <= pow2(prec) }

// remainders side of the chain coder: head r and word stack
pub struct Rem { pub words: Seq<nat>, pub r: nat }
pub open spec fn rinv(c: Cfg, s: Rem, prec: nat) -> bool { pow2((c.sb - c.wb - prec) as nat) <= s.r < pow2((c.sb - prec) as nat) }

// decode side effect on remainders for quantile q in [cum, cum+p)
pub open spec fn rdec(c: Cfg, s: Rem, q: nat, cum: nat, p: nat, prec: nat) -> Rem {
    let r1 = s.r * p + (q - cum) as nat;
    if r1 >= pow2((c.sb - prec) as nat) { Rem { words: s.words.push(r1 % pow2(c.wb)), r: r1 / pow2(c.wb) } } else { Rem { words: s.words, r: r1 } }
}
// encode: returns (remainders side, quantile)
pub open spec fn renc(c: Cfg, s: Rem, cum: nat, p: nat, prec: nat) -> (Rem, nat) {
    let (words, r) = if s.r < p * pow2((c.sb - c.wb - prec) as nat) && s.words.len() > 0 { (s.words.drop_last(), s.r * pow2(c.wb) + s.words.last()) } else { (s.words, s.r) };
    (Rem { words, r: r / p }, cum + r % p)
}

pub proof fn lemma_chain_enc_dec(c: Cfg, s: Rem, q: nat, cum: nat, p: nat, prec: nat)
    requires cfg_ok(c, prec), rinv(c, s, prec), entry_ok(cum, p, prec), cum <= q < cum + p
    ensures renc(c, rdec(c, s, q, cum, p, prec), cum, p, prec) == (s, q), rinv(c, rdec(c, s, q, cum, p, prec), prec)
{
    let W = pow2(c.wb); let hi = pow2((c.sb - prec) as nat); let k = pow2((c.sb - c.wb - prec) as nat);
    lemma_pow2_pos(c.wb); lemma_pow2_pos((c.sb - prec) as nat); lemma_pow2_pos((c.sb - c.wb - prec) as nat); lemma_pow2_pos(prec);
    lemma_pow2_adds((c.sb - c.wb - prec) as nat, c.wb);   // k*W == hi
    let rem = (q - cum) as nat;
    let r1 = s.r * p + rem;
    lemma_fundamental_div_mod_converse(r1 as int, p as int, s.r as int, rem as int);
    lemma_mul_is_commutative(s.r as int, p as int);
    // r1 < hi * p ; r1 >= k*p
    assert(r1 < hi * p) by { lemma_mul_inequality((s.r + 1) as int, hi as int, p as int); lemma_mul_is_distributive_add_other_way(p as int, s.r as int, 1); }
    assert(r1 >= k * p) by { lemma_mul_inequality(k as int, s.r as int, p as int); }
    let d = rdec(c, s, q, cum, p, prec);
    if r1 >= hi {
        lemma_fundamental_div_mod(r1 as int, W as int); lemma_mod_bound(r1 as int, W as int);
        // d.r = r1 / W < p*k  and >= k
        assert(d.r < p * k) by {
            if r1 / W >= p * k { lemma_mul_inequality((p * k) as int, (r1 / W) as int, W as int); lemma_mul_is_associative(p as int, k as int, W as int); lemma_mul_is_commutative(W as int, (r1/W) as int); lemma_mul_is_commutative(hi as int, p as int); }
        }
        assert(d.r >= k) by {
            if r1 / W < k { lemma_mul_inequality((r1 / W + 1) as int, k as int, W as int); lemma_mul_is_distributive_add_other_way(W as int, (r1/W) as int, 1); lemma_mul_is_commutative(W as int, (r1/W) as int); }
        }
        assert(d.r < hi) by { lemma_mul_inequality(p as int, pow2(prec) as int, k as int); lemma_pow2_adds((c.sb - c.wb - prec) as nat, prec); lemma_mul_is_commutative(p as int, k as int);
            lemma_mul_is_commutative(pow2(prec) as int, k as int);
            if prec < c.wb { lemma_pow2_strictly_increases((c.sb - c.wb) as nat, (c.sb - prec) as nat); } }
        assert(d.words.drop_last() == s.words);
        assert(d.r * W + d.words.last() == r1) by { lemma_mul_is_commutative(W as int, (r1 / W) as int); }
    } else {
        assert(!(d.r < p * k)) by { lemma_mul_is_commutative(p as int, k as int); }
        assert(d.r >= k) by { lemma_mul_inequality(1, p as int, k as int); lemma_mul_is_commutative(p as int, k as int); }
    }
}

proof fn lemma_chain_enc_dec_reach(c: Cfg, s: Rem, q: nat, cum: nat, p: nat, prec: nat)
    requires cfg_ok(c, prec), rinv(c, s, prec), entry_ok(cum, p, prec), cum <= q < cum + p
    ensures false
{}
} // verus!
fn main() {}
