#!/bin/sh
# Run once after a fresh restore, offline: pre-builds the Kani harness crate and the native
# replay crate against /repo so that the first check does not pay for the cold build.
set -e
cd "$(dirname "$0")"
export CARGO_NET_OFFLINE=true
mkdir -p evidence replays .gen
cp -n /repo/Cargo.lock kani/Cargo.lock 2>/dev/null || true
cp -n /repo/Cargo.lock replay/Cargo.lock 2>/dev/null || true
(cd kani && RUSTFLAGS="--cfg constriction_verif" cargo kani --only-codegen >/dev/null 2>&1 || true)
python3 -c "
import sys; sys.path.insert(0,'.')
from vk import kani as K
print(K.native_replay('selftest::smoke', [[1]])['verdict'])
"
verus --version >/dev/null
echo setup done
