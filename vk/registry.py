"""Registry of units (Kani harnesses, extracted Verus units, lemma files) per property,
and the manifest texts (MANIFEST.json is generated from here: python3 -m vk.manifest)."""

PROPS = {}
KANI_UNITS = []
VERUS_UNITS = []
LEMMA_UNITS = []
MANIFEST_META = {"_hook_commits": ["aa70414"]}
NOT_APPLICABLE = {}

TB_COMMON = [
    "Verus 0.2026.09.13 + Z3", "Kani 0.68 + CBMC 6.11 + kissat/cadical",
    "extraction rules R1-R13 (vk/verus.py) and conversion shims in the unit templates",
    "ghost entropy-model stub and ghost backend stub (DESIGN §4)",
    "unsafe trait BitArray impls behave as the primitive integers",
]


def prop(pid, level="proof", explanation="", trusted_base=(), assumptions=()):
    PROPS[pid] = dict(level=level, explanation=explanation,
                      trusted_base=TB_COMMON + list(trusted_base), assumptions=list(assumptions))


def kani(harness, props, tier="quick", kind="complete", bound="", fns=(), text="", timeout=1800, allow=(), loop_contract=None):
    """allow: regexes of failed-check descriptions that are *clean failures the property permits*
    (documented panics of a constructor on invalid input); they are not violations.
    loop_contract: (properties, text) - the harness' unwind bound is a *termination contract* of the
    function under contract (stated in `text`, with the reason the bound is above the worst case of a
    terminating implementation); an unwinding-assertion failure INSIDE /repo code is then a violation of the
    named properties (a loop that runs longer than the contract allows), not an undecided run."""
    KANI_UNITS.append(dict(harness=harness, props=list(props), tier=tier, kind=kind, bound=bound,
                           fns=list(fns), text=text, timeout=timeout, allow=list(allow), loop_contract=loop_contract))


def lemma(file, props, tier="quick", timeout=600):
    LEMMA_UNITS.append(dict(file=file, props=list(props), tier=tier, timeout=timeout))


def verus_unit(**kw):
    VERUS_UNITS.append(kw)


def claim(pid, text, note, technique):
    MANIFEST_META[pid] = dict(text=text, note=note, technique=technique)


K_NOTE = ("Kani/CBMC bit-precise on the compiled real crate; stub entropy model (one symbolic entry) and "
          "array-window backend stand for every model/backend satisfying the trait contracts (DESIGN §4); "
          "division-bearing steps are complete at (u8,u16) only; wider widths through the Verus units on extracted text")

# =====================================================================================
# ANS coder (src/stream/stack.rs)
# =====================================================================================
ENC = "stack.rs::<AnsCoder as Encode>::encode_symbol"
DEC = "stack.rs::<AnsCoder as Decode>::decode_symbol"
ST = "stack.rs::AnsCoder::"
for p, tier in (("p8", "quick"), ("p3", "quick"), ("p1", "thorough"), ("p5", "thorough")):
    kani(f"ans::u8_u16_{p}::rt_push_pop", ["C01"], tier=tier, fns=[ENC, DEC], timeout=1200,
         text="for all (bulk,state) with inv, all entries (cum,p) with 1<=p<2^P, cum+p<=2^P: decode(encode(c,e),e) == (e.sym, c)")
    kani(f"ans::u8_u16_{p}::rt_pop_push", ["C04"], tier=tier, fns=[ENC, DEC], timeout=1200,
         text="for all inv states whose quantile lies in e: encode(decode(c,e),e) == c")
    kani(f"ans::u8_u16_{p}::conf_encode", ["C06"], tier=tier, fns=[ENC], timeout=1200,
         text="encode step == spec_push (threshold state>>(sb-P) >= p, low word flushed, head (s/p)<<P + cum + s%p)")
    kani(f"ans::u8_u16_{p}::conf_decode", ["C06"], tier=tier, fns=[DEC], timeout=1200,
         text="decode step == spec_pop (quantile = state mod 2^P, refill iff < 2^(sb-wb) and a word exists)")
    kani(f"ans::u8_u16_{p}::encode_errors", ["C09", "C01"], tier=tier, fns=[ENC],
         text="symbol outside support => Err(ImpossibleSymbol) and coder unchanged; k-th write refused => Err(Backend) and coder unchanged")
    kani(f"ans::u8_u16_{p}::decode_total", ["C10", "C20", "C04"], tier=tier, fns=[DEC],
         text="from ANY (bulk,state) (invariant or not), any entry incl. p == 2^P: decode is Ok, no overflow/panic, symbol from the model")
    kani(f"ans::u8_u16_{p}::potential", ["C12"], tier=tier, fns=[ENC],
         text="<= 1 word per symbol and Phi(after)*p*2^k <= Phi(before)*2^P*(2^k+1), Phi = max(state,2^(sb-wb))*2^(wb*|bulk|)")
for m in ("u16_u32_p12", "u32_u64_p24", "u32_u64_p32", "u8_u32_p8"):
    t = "quick" if m == "u32_u64_p24" else "thorough"
    kani(f"ans::{m}::conf_decode", ["C06"], tier=t, fns=[DEC], timeout=1200,
         text="decode step == spec_pop at wide widths (division-free)")
    kani(f"ans::{m}::decode_total", ["C10", "C20"], tier=t, fns=[DEC])

for w, tier in (("u8_u16", "quick"), ("u32_u64", "quick"), ("u8_u32", "quick"), ("u16_u32", "thorough")):
    kani(f"ans_io::{w}::export_import", ["C01", "C18", "C08", "C12"], tier=tier,
         fns=[ST + "into_compressed", ST + "from_compressed", ST + "read_initial_state", ST + "num_words", ST + "num_bits", ST + "is_empty", ST + "iter_compressed", "lib.rs::bit_array_to_chunks_truncated", ST + "clone"],
         text="into_compressed == bulk ++ LE chunks of state without leading zero words; num_words/num_bits/is_empty/iter_compressed agree; from_compressed inverts it")
    kani(f"ans_io::{w}::import_any", ["C01"], tier=tier, fns=[ST + "from_compressed", ST + "read_initial_state"],
         text="from_compressed(d) refused iff d ends in a zero word; else inv holds and into_compressed returns d")
    kani(f"ans_io::{w}::binary_roundtrip", ["C04", "C18", "C08", "C01", "C06", "C12"], tier=tier,
         fns=[ST + "from_binary", ST + "into_binary", ST + "get_binary", ST + "num_valid_bits", "stack.rs::CoderGuard<SEALED=true>::{new,drop}"],
         text="for ANY words d (incl. trailing zero words, empty): into_binary(from_binary(d)) == d; num_valid_bits == wb*|d|; get_binary shows d and restores the coder")
    kani(f"ans_io::{w}::binary_export_any", ["C04"], tier=tier, fns=[ST + "into_binary", ST + "from_binary"],
         text="into_binary is Ok iff the payload is a whole number of words; then from_binary inverts it")
    kani(f"ans_io::{w}::guard_compressed", ["C08", "C01", "C12", "C06"], tier=tier, fns=[ST + "get_compressed", "stack.rs::CoderGuard<SEALED=false>::{new,drop}"],
         text="get_compressed view == what into_compressed would return; drop restores (bulk,state)")
    kani(f"ans_io::{w}::pos_seek", ["C07"], tier=tier, fns=["stack.rs::<AnsCoder as Pos>::pos", "stack.rs::<AnsCoder as Seek>::seek"],
         text="pos()==(|bulk|,state); seek((p,s)) truncates to p and installs s; p > |bulk| refused, coder unchanged")
kani("ans_io::batch_encode_forms", ["C01"], fns=["stream/mod.rs::Encode::{encode_symbols,try_encode_symbols,encode_iid_symbols}"],
     text="batch encode forms == per-symbol loop on ANY Encode implementor (recording stub), incl. stop at first error")
kani("ans_io::batch_decode_forms", ["C01"], fns=["stream/mod.rs::Decode::{decode_symbols,try_decode_symbols,decode_iid_symbols}", "stream/mod.rs::{DecodeSymbols,TryDecodeSymbols,DecodeIidSymbols}::next"],
     text="batch decode iterators == per-symbol loop on ANY Decode implementor")
kani("ans_io::batch_reverse_ans_u8_u16_p3", ["C01"], kind="bounded", bound="2 symbols, P=3, (u8,u16)", timeout=1200,
     fns=[ST + "encode_symbols_reverse", ST + "try_encode_symbols_reverse", ST + "encode_iid_symbols_reverse"])

# ---------------- Verus unit: ANS (stack.rs)
kani("ans_io::slice_constructors_u8_u16", ["C01", "C04"], fns=[ST + "from_compressed_slice", ST + "from_binary_slice", ST + "from_reversed_binary"],
     text="slice / reversed constructors leave the same (state, remaining words) as the owning constructors over the same words")
kani("ans_io::views_u8_u16", ["C08", "C01", "C07"], fns=[ST + "as_decoder", ST + "as_seekable_decoder", ST + "into_decoder", ST + "from_reversed_compressed"],
     text="as_decoder / as_seekable_decoder show exactly the encoder's (words, state) and leave it untouched; into_decoder keeps them; from_reversed_compressed(reversed export) is the coder again")
_ANS_IMPL_ENC = "Encode<PRECISION>\n    for AnsCoder<Word, State, Backend>"
_ANS_IMPL_DEC = "Decode<PRECISION>\n    for AnsCoder<Word, State, Backend>"
verus_unit(
    name="ans", template="ans_unit.rs.tmpl",
    widths=["u8_u16", "u8_u32", "u8_u64", "u16_u32", "u16_u64", "u32_u64"],
    slots={
        "ENCODE": dict(file="src/stream/stack.rs", anchor=_ANS_IMPL_ENC, fn="encode_symbol", extra=[
            (r"model\s*\.left_cumulative_and_probability\(symbol\)\s*\.ok_or_else\(\|\| DefaultEncoderFrontendError::ImpossibleSymbol\.into_coder_error\(\)\)\?",
             "model.left_cumulative_and_probability(symbol).ok_or_impossible()?", 1),
            (r"self\.bulk\.write\(self\.state\.as_\(\)\)\?;", "self.bulk.write(self.state.s2w()).be()?;", 1),
        ]),
        "DECODE": dict(file="src/stream/stack.rs", anchor=_ANS_IMPL_DEC, fn="decode_symbol", extra=[
            (r"self\.bulk\.read\(\)\?", "self.bulk.read().be()?", 1),
            (r"word\.into\(\)", "word.w2s()", 1),
        ]),
        "FROM_BINARY": dict(file="src/stream/stack.rs", anchor="impl<Word, State, Backend> AnsCoder<Word, State, Backend>", fn="from_binary", extra=[
            # ghost-only: loop contract inserted between the (untouched) loop condition and the body
            (r"while ([^{]*?)\{",
             r"while \1" "\n            invariant STATE_BITS >= 2 * WORD_BITS, (1 as State) << (STATE_BITS - WORD_BITS) == @TH@, state >= 1, bigv(data@, state) == bigv(data0, 1), data@.len() <= data0.len(), data@ == data0.subrange(0, data@.len() as int),\n"
             "            ensures state >= @TH@ || data@.len() == 0,\n            decreases data@.len()\n        {\n            proof { lemma_th_io(); if data@.len() > 0 { lemma_from_binary_step(data@, state); assert(data@.drop_last() =~= data0.subrange(0, data@.len() - 1)); } }", 1),
            (r"word\.into\(\)", "word.w2s()", 1),
            (r"Ok\(Self \{\s*bulk: data,\s*state,\s*phantom: PhantomData,\s*\}\)", "Ok(AnsCoder { bulk: data, state })", 1),
        ]),
        "READ_INITIAL_STATE": dict(file="src/stream/stack.rs", anchor="impl<Word, State, Backend> AnsCoder<Word, State, Backend>", fn="read_initial_state", extra=[
            (r"read_word\(\)\.map_err\(\|_\| \(\)\)\?", "compressed.read()?", 2),
            (r"let mut state = first_word\.into\(\);", "proof { lemma_first_word(data0); }\n            let mut state = first_word.w2s();", 1),
            # R16: `while let Some(x) = e { body }` -> its desugaring, plus the ghost-only loop contract
            (r"while let Some\(word\) = compressed\.read\(\)\? \{",
             "loop\n                invariant_except_break state < @TH@,\n                invariant STATE_BITS >= 2 * WORD_BITS, (1 as State) << (STATE_BITS - WORD_BITS) == @TH@, state >= 1, bigv(compressed@, state) == bigv(data0, 0), compressed@.len() <= data0.len(), compressed@ == data0.subrange(0, compressed@.len() as int),\n"
             "                ensures state >= @TH@ || compressed@.len() == 0,\n                decreases compressed@.len()\n            {\n"
             "                proof { if compressed@.len() > 0 { lemma_from_binary_step(compressed@, state); assert(compressed@.drop_last() =~= data0.subrange(0, compressed@.len() - 1)); } }\n"
             "                let o__ = compressed.read()?; if o__.is_none() { break; } let word = o__.unwrap();", 1),
            (r"word\.into\(\)", "word.w2s()", 1),
        ]),
        "APOS": dict(file="src/stream/stack.rs", anchor="Pos for AnsCoder<Word, State, Backend>", fn="pos", extra=[]),
        "ASEEK": dict(file="src/stream/stack.rs", anchor="Seek for AnsCoder<Word, State, Backend>", fn="seek", extra=[]),
    },
    obligations={
        "from_binary": dict(own=["C04", "C01"], dep=["C18", "C12"], kani_twin="ans_io::u8_u32::binary_roundtrip",
                            text="ensures (data of ANY length, all widths): the coder denotes exactly marker ++ data (state * W^|bulk| + le(bulk) == W^|data| + le(data)); head >= 2^(SB-WB) unless the bulk is empty; remaining bulk is a prefix of the data"),
        "read_initial_state": dict(own=["C01"], dep=["C18"], kani_twin="ans_io::u8_u16::import_any",
                                   text="ensures (data of ANY length): Err iff the data ends in a zero word; Ok(head) => (head, remaining words) denotes exactly the data, head >= 2^(SB-WB) unless nothing remains, head == 0 iff the data is empty"),
        "pos": dict(own=["C07"], dep=[], text="ensures: (number of words on the stack, head state)"),
        "seek": dict(own=["C07"], dep=[], text="ensures: Err iff pos > len; else the coder's view is (first pos words, given state)"),
        "thm_seek_restores_snapshot": dict(own=["C07"], dep=[], text="encoding only pushes, so a snapshot's words stay a prefix of the finished data and seek restores the snapshot's view exactly"),
        "encode_symbol": dict(own=["C06", "C09"], dep=["C01", "C04", "C12"], kani_twin="ans::u8_u16_p8::conf_encode",
                              text="ensures: symbol outside model => Err(Frontend), coder unchanged; flush iff state>>(SB-P) >= p; failed write => Err(Backend), coder unchanged; state' == ll_push_head(..) [all P]"),
        "decode_symbol": dict(own=["C06", "C10"], dep=["C01", "C04"], kani_twin="ans::u8_u16_p8::conf_decode",
                              text="ensures: Ok(model.sym); state' == ll_pop_head(..), refill iff below 2^(SB-WB) and a word exists; no overflow [all P]"),
        "thm_encode_is_push": dict(own=["C01", "C04", "C06", "C12"], dep=[], text="layer B = layer A: the Ok-postcondition of encode_symbol is the mathematical rANS push on the (bulk,state) view"),
        "thm_decode_is_pop": dict(own=["C01", "C04", "C06"], dep=[], text="layer B = layer A: the postcondition of decode_symbol is the mathematical rANS pop"),
    },
)
lemma("lemmas_ans.rs", ["C01", "C04", "C12"])

# =====================================================================================
# Range coder (src/stream/queue.rs)
# =====================================================================================
QE = "queue.rs::<RangeEncoder as Encode>::encode_symbol"
QD = "queue.rs::<RangeDecoder as Decode>::decode_symbol"
Q = "queue.rs::"
for p, tier in (("p8", "quick"), ("p3", "quick"), ("p5", "thorough"), ("p1", "thorough")):
    kani(f"range::u8_u16_{p}::enc_step_refines", ["C06", "C02", "C11"], tier=tier, fns=[QE], timeout=1200,
         text="under abs: L' = L + scale*cum, R' = scale*p, renormalise by one word iff R' < 2^(sb-wb); representation invariant kept; any held-back situation (n_inv<=3)")
    kani(f"range::u8_u16_{p}::enc_potential", ["C12"], tier=tier, fns=[QE], timeout=1200,
         text="|bulk|+n_inv grows by <= 1 per symbol; range*p*2^k <= range'*2^P*(2^k+1)")
    kani(f"range::u8_u16_{p}::enc_impossible", ["C09"], tier=tier, fns=[QE],
         text="symbol outside the model => Err(ImpossibleSymbol); bulk, state, situation unchanged")
    kani(f"range::u8_u16_{p}::seal_suffix", ["C11", "C02", "C18", "C12", "C06"], tier=tier, fns=[Q + "RangeEncoder::seal", Q + "RangeEncoder::into_compressed", Q + "RangeEncoder::num_seal_words", Q + "RangeEncoder::num_words"],
         text="for every encoder state (all situations, n_inv<=2) and EVERY continuation of the sealed words: L <= X < L+R; 1..2 seal words; num_words == words written")
    kani(f"range::u8_u16_{p}::seek_final_position", ["C07", "C18"], tier=tier, fns=[Q + "<RangeDecoder as Seek>::seek", Q + "RangeDecoder::maybe_exhausted", Q + "RangeEncoder::seal"],
         text="from every final encoder state: seek(final position) over the sealed words is accepted and leaves the decoder possibly exhausted")
    kani(f"range::u8_u16_{p}::empty_message", ["C02", "C18"], tier=tier, fns=[Q + "RangeEncoder::seal", Q + "RangeEncoder::is_empty"], text="empty message seals to no words")
    kani(f"range::u8_u16_{p}::enc_pos", ["C07"], tier=tier, fns=[Q + "<RangeEncoder as Pos>::pos"], text="pos() == (backend pos + n_inv, state) for any n_inv")
    kani(f"range::u8_u16_{p}::dec_seek", ["C07"], tier=tier, fns=[Q + "<RangeDecoder as Seek>::seek", Q + "RangeDecoder::read_point"],
         text="seek((pos,state)): window of sb/wb words at pos zero padded, state installed; pos beyond data refused")
    kani(f"range::u8_u16_{p}::dec_new", ["C02", "C18", "C10"], tier=tier, fns=[Q + "RangeDecoder::with_backend", Q + "RangeDecoder::read_point", Q + "RangeDecoder::maybe_exhausted"],
         text="decoder starts from the first sb/wb words zero padded and the full interval; exhaustion reporting at the start")
# (P = 8 did not finish in 60 min - symbolic 16-bit division with an 8-bit quotient; the Verus unit covers every P)
for p, tier, tmo in (("p1", "quick", 600), ("p3", "quick", 900), ("p5", "thorough", 2400)):
    kani(f"range::u8_u16_{p}::dec_step", ["C10", "C02", "C06", "C20"], tier=tier, fns=[QD, Q + "RangeDecoder::from_raw_parts"], timeout=tmo,
         text="from every accepted (lower,range,point): Ok(symbol whose interval holds the quantile) or InvalidData iff quantile >= 2^P; invariants point-lower<range, range>=2^(sb-wb) re-established; mirrors the encoder's interval step")
for m in ("u8_u32_p8", "u16_u32_p12", "u32_u64_p24"):
    for h in ("enc_impossible", "empty_message", "enc_pos", "dec_seek", "dec_new"):
        props = {"enc_impossible": ["C09"], "empty_message": ["C02", "C18"], "enc_pos": ["C07"], "dec_seek": ["C07"], "dec_new": ["C02", "C18", "C10"]}[h]
        # the State = 4 Words instance of the window functions (dec_seek, dec_new) is cheap and belongs to the quick tier: zero padding at the
        # end of data differs from the two-word case
        kani(f"range::{m}::{h}", props, tier="quick" if (m == "u32_u64_p24" or (m == "u8_u32_p8" and h in ("dec_seek", "dec_new"))) else "thorough", fns=[Q + h])
kani("range::u8_u32_p8::seek_final_position", ["C07", "C18"], fns=[Q + "<RangeDecoder as Seek>::seek", Q + "RangeDecoder::maybe_exhausted"], text="final-position seek at State = 4 Words")
kani("range::u8_u32_p8::seal_suffix", ["C11"], fns=[Q + "RangeEncoder::seal"],
     text="same contract at State = 4 Words (documented claim: concatenation with arbitrary further words)")
kani("range::u16_u32_p12::seal_suffix", ["C11", "C02", "C18"], tier="thorough", fns=[Q + "RangeEncoder::seal"], timeout=1200)
for h, tier, tmo in (("n1_u8_u16_p5", "quick", 300), ("n1_u8_u16_p8", "quick", 300), ("n2_u8_u16_p5", "quick", 600),
                     ("n2_u8_u16_p8", "thorough", 1800), ("n3_u8_u16_p5", "thorough", 1800), ("n3_u8_u16_p3", "thorough", 1800)):
    kani("range::msg::" + h, ["C02", "C12"], tier=tier, kind="bounded", bound=h.split("_")[0] + " symbols, (u8,u16)", timeout=tmo, fns=[QE, QD, Q + "RangeEncoder::seal", Q + "RangeDecoder::read_point"],
         text="whole message through real encoder, seal, real decoder: symbols come back in order; maybe_exhausted at the end; <= n+2 words")

# =====================================================================================
# Chain coder (src/stream/chain.rs)
# =====================================================================================
CH = "chain.rs::"
for p, tier in (("p5", "quick"), ("p8", "quick"), ("p3", "thorough")):
    kani(f"chain::u8_u16_{p}::dec_step", ["C14", "C10", "C13", "C20"], tier=tier, fns=[CH + "<ChainCoder as Decode>::decode_symbol", CH + "ChainCoder::flush_remainders_head"], timeout=1200,
         text="symbol = model(next P-bit chunk of the compressed side); new compressed side and the out-of-data condition depend on the compressed side only; remainders step r*p+(q-cum) with flush iff >= 2^(sb-P); head invariants kept; total")
    kani(f"chain::u8_u16_{p}::dec_enc", ["C13"], tier=tier, fns=[CH + "<ChainCoder as Decode>::decode_symbol", CH + "<ChainCoder as Encode>::encode_symbol"], timeout=1200,
         text="encode(decode(c,e),e) == c on heads and both backends")
    kani(f"chain::u8_u16_{p}::enc_dec", ["C13", "C09", "C20"], tier=tier, fns=[CH + "<ChainCoder as Encode>::encode_symbol", CH + "ChainCoder::refill_remainders_head"], timeout=1200,
         text="impossible symbol / missing remainders reported with the coder unchanged; decode(encode(c,sym)) == (sym,c)")
kani("chain::route_remainders_u8_u16_p5", ["C13"], kind="bounded", bound="<= 4 data words, 2 symbols", timeout=1200,
     fns=[CH + "ChainCoder::from_binary", CH + "ChainCoder::into_remainders", CH + "ChainCoder::from_remainders", CH + "ChainCoder::into_binary", CH + "ChainCoderHeads::new"],
     text="from_binary -> decode 2 -> into_remainders -> from_remainders -> encode back -> into_binary == prefix ++ data")
kani("chain::u8_u32_p8::exports", ["C13"], fns=[CH + "ChainCoder::into_compressed", CH + "ChainCoder::into_binary"], text="export routes at State = 4 Words")
kani("chain::precision_step_u8_u16", ["C13", "C14", "C10", "C20"], fns=[CH + "ChainCoder::change_precision", CH + "ChainCoder::increase_precision_unchecked", CH + "ChainCoder::decrease_precision_unchecked"],
     text="one precision change from any head state: increase keeps the compressed side and re-establishes the invariant; decrease fails exactly when a refill is needed and no remainders are left")
kani("chain::precision_change_u8_u16", ["C13", "C10", "C20", "C14"], fns=[CH + "ChainCoder::change_precision", CH + "ChainCoder::increase_precision_unchecked", CH + "ChainCoder::decrease_precision_unchecked"],
     text="change_precision<5> then <3> from any P=3 state is the identity")

# =====================================================================================
# Backends (src/backends.rs)
# =====================================================================================
B = "backends.rs::"
for h, fns, txt in [
    ("cursor_constructors", ["Cursor::new_at_pos", "Cursor::new_at_pos_mut", "Cursor::new_at_write_beginning", "Cursor::new_at_write_end", "Cursor::new_at_write_end_mut"], "new_at_pos(buf,pos) is Ok iff pos <= len; pos() reports it"),
    ("cursor_stack_read", ["<Cursor as ReadWords<Stack>>::read", "<Cursor as BoundedReadWords<Stack>>::remaining"], "pos==0 => None (sticky), else Some(buf[pos-1]) and pos-1; remaining()==pos"),
    ("cursor_queue_read", ["<Cursor as ReadWords<Queue>>::read", "<Cursor as BoundedReadWords<Queue>>::remaining"], "pos==len => None (sticky), else Some(buf[pos]) and pos+1; remaining()==len-pos"),
    ("cursor_write", ["<Cursor as WriteWords>::write", "<Cursor as BoundedWriteWords>::space_left"], "write Ok iff pos<len, stores at buf[pos], frame: no other word changes; space_left()==len-pos"),
    ("cursor_seek", ["<Cursor as Seek>::seek", "<Cursor as Pos>::pos", "<Reverse as Seek>::seek"], "seek(p) Ok iff p<=len, then pos()==p; refused seek leaves pos"),
    ("reverse_cursor_write", ["<Reverse<Cursor> as WriteWords>::write", "<Reverse<Cursor> as BoundedWriteWords>::space_left"], "write Ok iff pos>0, stores at buf[pos-1]; space_left()==pos"),
    ("reverse_cursor_read", ["<Reverse as ReadWords<Queue>>::read", "<Reverse as ReadWords<Stack>>::read", "<Reverse as BoundedReadWords>::remaining"], "Reverse swaps semantics"),
    ("cursor_into_reversed", ["Cursor::into_reversed", "Reverse<Cursor>::into_reversed"], "read after in-place reversal == read before; twice == identity"),
    ("cursor_into_reversed_write", ["Cursor::into_reversed", "<Reverse<Cursor> as WriteWords>::write"], "write after in-place reversal lands at the same logical index; free space unchanged"),
    ("vec_backend", ["<Vec as WriteWords>::write", "<Vec as ReadWords<Stack>>::read", "<Vec as Seek>::seek", "<Vec as Pos>::pos"], "Vec is a LIFO; seek truncates; beyond end refused"),
]:
    kani("backends::" + h, ["C17", "C20"] + (["C07"] if h in ("cursor_seek", "vec_backend") else []) + (["C09"] if h in ("cursor_write", "reverse_cursor_write") else []), fns=[B + f for f in fns], text=txt)
kani("backends::into_and_as_read_words", ["C17"], fns=[B + "IntoReadWords for Buf", B + "AsReadWords for Buf"], text="stack readers start at the write end, queue readers at the beginning; borrowed readers leave the buffer untouched")
kani("backends::smallvec_backend", ["C17"], kind="bounded", bound="SmallVec<[u8;2]> with <= 3 words", fns=[B + "SmallVec impls"])
kani("backends::adapters", ["C17"], kind="bounded", bound="3-word iterator, 2 callback writes", fns=[B + "FallibleIteratorReadWords", B + "InfallibleCallbackWriteWords", B + "FallibleCallbackWriteWords"])
kani("backends::cursor_buf_mut_then_read", ["C20"], fns=[B + "Cursor::buf_mut", B + "<Cursor as ReadWords<Stack>>::read"],
     text="safe sequence new_at_write_end(vec).buf_mut().truncate(k); stack read() must not index out of bounds")

# =====================================================================================
# Bit-level coders (src/symbol/mod.rs, exp_golomb.rs), Huffman
# =====================================================================================
S = "symbol/mod.rs::"
kani("bits::stack_write_read", ["C16", "C18"], fns=[S + "StackCoder::write_bit", S + "StackCoder::read_bit", S + "SymbolCoder::len", S + "SymbolCoder::is_empty"],
     text="after any n<=10 writes: len()==n; write x; read == x; read == b[n-1] (None, sticky, on empty)")
kani("bits::stack_export_import", ["C16"], fns=[S + "StackCoder::into_compressed", S + "StackCoder::from_compressed"],
     text="into_compressed() == LSB-first packing + end marker; from_compressed(those words) holds the same n bits")
kani("bits::stack_import_any", ["C16", "C18"], fns=[S + "StackCoder::from_compressed"],
     text="for any last word w != 0: content = bits of w below its highest set bit (zero word refused)")
kani("bits::queue_roundtrip", ["C16", "C18"], fns=[S + "QueueEncoder::write_bit", S + "QueueEncoder::into_compressed", S + "QueueDecoder::read_bit", S + "QueueDecoder::maybe_exhausted"],
     text="export == LSB-first packing zero padded; decoder yields the bits in order, then padding zeros, then None")
kani("bits::stack_import_then_push", ["C16", "C18"], fns=[S + "StackCoder::from_compressed", S + "StackCoder::write_bit", S + "StackCoder::read_bit"], text="bits pushed onto a re-imported stack pop back unchanged; imported bits untouched")
kani("bits::derived_decoders", ["C16", "C08"], fns=[S + "StackCoder::{as_decoder,iter,into_decoder,into_iterator}", S + "QueueEncoder::into_decoder"],
     text="derived decoders / iterators return the bits in LIFO resp. FIFO order; the borrowed ones leave the coder untouched")
kani("bits::stack_guard", ["C08", "C16"], fns=[S + "StackCoderGuard::new", S + "StackCoderGuard::drop"], text="guard view == export; after drop, write+export == uninspected twin")
kani("bits::queue_guard", ["C08", "C16"], fns=[S + "QueueEncoderGuard::new", S + "QueueEncoderGuard::drop"], text="guard view == export; after drop, write+export == uninspected twin")
kani("bits::exp_golomb_u8", ["C16"], timeout=1800, fns=["symbol/exp_golomb.rs::ExpGolomb::{encode_symbol_prefix,encode_symbol_suffix,decode_symbol}"],
     text="for every u8 value incl. MAX: prefix bits == textbook codeword; queue and stack round trips return the value")
kani("bits::exp_golomb_u16", ["C16"], tier="thorough", timeout=3600, fns=["symbol/exp_golomb.rs::ExpGolomb<u16>"], text="same for every u16 value")
HF = "symbol/huffman.rs::"
for n, tier, tmo in (("n1", "quick", 300), ("n2", "quick", 600), ("n3", "quick", 900), ("n4", "thorough", 3600)):
    kani("huffman::" + n, ["C15", "C20"] + (["C09"] if n in ("n2", "n3") else []), tier=tier, kind="bounded", bound=f"{n[1:]} symbols, u8 weights", timeout=tmo,
         fns=[HF + "EncoderHuffmanTree::try_from_probabilities", HF + "DecoderHuffmanTree::try_from_probabilities", HF + "EncoderHuffmanTree::encode_symbol_suffix", HF + "DecoderHuffmanTree::decode_symbol", S + "EncoderCodebook::encode_symbol_prefix"],
         text="lengths == reference merge with (weight,index) order; Kraft equality; minimal cost; prefix == reversed suffix; decode inverts; out-of-alphabet rejected; node indices in bounds")

# =====================================================================================
# Entropy models (src/stream/model/**)
# =====================================================================================
M = "model/"
PANIC_UNIFORM = [r"assertion failed: range > 1", r"assertion failed: last_symbol <="]
for m, tier in (("uniform_u8_p8", "quick"), ("uniform_u8_p5", "quick"), ("uniform_u16_p12", "thorough")):
    kani(f"models::{m}::valid", ["C03", "C09", "C05", "C20"], tier=tier, fns=[M + "uniform.rs::UniformModel::{new,left_cumulative_and_probability,quantile_function}"],
         text="for every valid range and EVERY usize symbol: None iff symbol >= range; intervals consecutive, non-empty, tile [0,2^P), none is 2^P; quantile_function == encoder view")
    kani(f"models::{m}::table_small", ["C05"], tier=tier, kind="bounded", bound="range <= 4", fns=[M + "uniform.rs::UniformModel::symbol_table"])
    kani(f"models::{m}::invalid", ["C19", "C20"], tier=tier, fns=[M + "uniform.rs::UniformModel::new"], allow=PANIC_UNIFORM,
         text="range in {0,1} or > 2^P: new() panics, never returns a model")
FT = M + "categorical.rs::accumulate_nonzero_probabilities"
for pm, tier in (("table_u8_p8", "quick"), ("table_u8_p7", "quick")):
    for v in ("len0_infer", "len1", "len1_infer", "len2", "len2_infer", "len3"):
        kani(f"models::{pm}::{v}", ["C19", "C03", "C09", "C05", "C20"], tier=tier, kind="bounded", bound=v + " u8 entries (all values)",
             fns=[FT, M + "categorical/contiguous.rs::ContiguousCategoricalEntropyModel::{from_nonzero_fixed_point_probabilities,left_cumulative_and_probability,quantile_function,symbol_table,as_view}", M + "categorical.rs::iter_extended_cdf"],
             text="Ok <=> table valid (entries nonzero, >= 2 symbols, sum == 2^P or < 2^P with inference); Ok => model contract; table rows and view == encoder view")
# models::lookup_contiguous_p4 (symbolic table of <= 3 entries at P = 4 through the lookup constructor and both conversions) ends with an undetermined CBMC
# result after ~5 min (Vec::resize with a symbolic length): not registered; the lookup models are covered by the Verus lookup unit (query function, any
# table size) and models::lookup_full_precision_p8 (construction and conversion, one table, every quantile).
# models::lookup_contiguous_rejects_p4: the lookup constructor fills a 2^P-entry table; its loops exceed any affordable unwind bound with a symbolic table: not registered
# (acceptance is decided by the shared accumulate_nonzero_probabilities, covered by the table harnesses; the accepted lookup model by lookup_full_precision_p8).
# models::non_contiguous_p4 (symbolic table of <= 3 entries with <= 4 symbolic symbols) ends with an undetermined CBMC result after ~5 min: not registered;
# the non-contiguous decoder is covered by non_contiguous_full_precision_p8, non_contiguous_fast_counts and, for acceptance, by the shared accumulate_nonzero_probabilities harnesses.
kani("models::non_contiguous_full_precision_p8", ["C03", "C10", "C20"], kind="bounded", bound="one 3-entry table at P == Probability::BITS (explicit and inferred last entry), every quantile",
     fns=[M + "categorical/non_contiguous.rs::NonContiguousCategoricalDecoderModel::{from_symbols_and_nonzero_fixed_point_probabilities,quantile_function}"],
     text="at full precision (closing cdf entry wraps to 0) every quantile, also of the last symbol, is answered in bounds with the right entry")
kani("models::lookup_full_precision_p8", ["C05", "C10", "C20", "C03"], kind="bounded", bound="one 3-entry table at P == Probability::BITS, every quantile", timeout=900,
     fns=[M + "categorical/lookup_contiguous.rs::ContiguousLookupDecoderModel::{from_nonzero_fixed_point_probabilities,quantile_function}", M + "categorical/lookup_contiguous.rs::From<&ContiguousCategoricalEntropyModel>"],
     text="at full precision the lookup model, built directly or converted from the searched model, answers every quantile in bounds and exactly like the searched model")
kani("models::lazy_table_length_p2", ["C19", "C03"], kind="bounded", bound="all-ones tables of 2..=5 entries at P = 2",
     fns=[M + "categorical/lazy_contiguous.rs::LazyContiguousCategoricalEntropyModel::from_floating_point_probabilities_fast"],
     text="more symbols than quanta => Err; whatever is accepted tiles [0,2^P) and inverts exactly")
# models::fast_f32_n3_p8 (3 f32 entries, all bit patterns) found the negative-weight defect in 17 s but does not finish on the repaired
# code (> 75 min); models::lazy_vs_eager_f32_n3_p8 (3 symbolic non-negative f32 entries, lazy vs eager) did not finish in 5 min and was not pursued.  Not registered: floats are covered with 2 symbolic entries
# (fast_f32_n2_p8), 3 entries from a small value set (lazy_vs_eager_small_p8) and the rejection contracts over all bit patterns.
PANIC_QUANT = [r"assertion failed: support\.end\(\) > support\.start\(\)", r"This is a placeholder message; Kani doesn't support message formatted at runtime"]
for h, tier in (("quantizer_new_i8_u8_p8", "quick"), ("quantizer_new_i16_u8_p8", "quick"), ("quantizer_new_i16_u8_p5", "quick"),
                ("quantizer_new_u8_u16_p12", "thorough"), ("quantizer_new_i16_u16_p16", "thorough")):
    kani("models::" + h, ["C19", "C03"], tier=tier, allow=PANIC_QUANT, fns=[M + "quantize.rs::LeakyQuantizer::new", M + "quantize.rs::slack", M + "quantize.rs::<LeakilyQuantizedDistribution as EncoderModel>::left_cumulative_and_probability"],
         text="for ALL ranges of the symbol type: panic, or every symbol of the support owns the interval [s-min, ...) (zero CDF): no narrowing of the support size")
kani("models::quantizer_encoder_view_i8_u8_p8", ["C03", "C09"], kind="bounded", bound="support -64..=63 (free_weight a power of two), any monotone CDF", timeout=900,
     fns=[M + "quantize.rs::<LeakilyQuantizedDistribution as EncoderModel>::left_cumulative_and_probability"],
     text="encoder view under ANY monotone CDF: consecutive non-empty intervals from 0 to 2^P; outside the support => None")
kani("models::quantizer_symbol_table_i8_u8_p8", ["C05", "C20"], kind="bounded", bound="first two rows, support -64..=63, any monotone CDF", timeout=900,
     fns=[M + "quantize.rs::LeakilyQuantizedDistributionIter::next"],
     text="k-th symbol_table row == encoder view of the k-th symbol")

# =====================================================================================
# Properties: explanations and manifest claims
# =====================================================================================
prop("C01", explanation="pop(push(c,e),e) == c and inv preserved: per-step contract on the real AnsCoder::encode_symbol/decode_symbol "
     "(Kani, complete at (u8,u16), every state/entry); export/import and batch forms; width-parametric Verus lemma lemma_pop_push + lemma_history "
     "(all balanced LIFO histories, per-symbol precisions); lift to all widths through the extracted-text refinement obligations (owned by C06).")
prop("C02", explanation="chain, every link machine-checked: real encode_symbol == ll_enc (Verus, 6 widths, any number of held-back words) == cstep (thm_ll_enc_is_cstep) "
     "-> exact interval step (lemma_bridge); real decode_symbol == ll step (Verus, 6 widths, all P) == dec_step (thm_decode_is_dec_step); lemma_coupling + lemma_nested + "
     "lemma_message_roundtrip (messages of ANY length); real seal == seal_words (Verus) and lemma_seal_window (State = 2 Words, all situations). "
     "Kani: decoder step, seal + arbitrary suffix, read_point on the real code; whole messages of 1-3 symbols as a bounded cross-check.",
     assumptions=["C11/C02 at State wider than 2 Words: seal is a recorded finding (known_findings.json); the lemma chain is for State = 2 Words"])
prop("C03", level="model_checking", explanation="model contract (tiling, non-empty, no probability one, rejection outside support, quantile == encoder view) for every constructor output: "
     "uniform complete over all ranges; fixed-point tables over all u8 tables of <= 3 entries; float tables 3 x f32 all bit patterns; quantiser encoder view under any monotone CDF stub")
prop("C04", explanation="push(pop(c,e),e) == c per step (Kani) + lemma_push_pop/lemma_bits_back (Verus, all widths/lengths) + raw binary import/export for any words")
prop("C05", level="model_checking", explanation="pairwise agreement of representations: symbol_table rows vs encoder view, view vs owner, lookup vs searched, non-contiguous vs contiguous, lazy vs eager")
prop("C06", explanation="refinement of the real steps to the published algorithms written as independent spec functions: rANS push/pop (Kani (u8,u16) + decode at all widths; Verus all widths), "
     "range-coder interval step incl. carry bookkeeping under the abstraction function (Kani (u8,u16)), export word order")
prop("C07", explanation="pos/seek contracts of both coders and of the backends")
prop("C08", explanation="guard contracts: view == what finishing would return; drop restores the coder (ANS all widths; bit coders observationally)")
prop("C09", explanation="error-path contracts of every coder's encode_symbol and rejection contracts of the models")
prop("C10", explanation="totality contracts of every decoder step from every constructible state")
prop("C11", explanation="seal contract: for every encoder state the sealed words followed by any suffix stay in the interval")
prop("C12", explanation="per-call word counts and integer potential inequalities per step; induction to the product form in Verus; A-log: log form is paper mathematics")
prop("C13", explanation="chain coder step inverses from arbitrary heads (hook), precision change inverse, bounded export/import routes")
prop("C14", explanation="functional contract: symbol and new compressed side are functions of the compressed side (and the model) only")
prop("C15", level="model_checking", explanation="bounded: n <= 3 (quick) / 4 (thorough) symbols with symbolic u8 weights against a reference merge")
prop("C16", explanation="ghost bit sequence b[0..n], n <= 10 over u8 words (all representations); export against the packing spec; Exp-Golomb all u8/u16 values (thorough)")
prop("C17", explanation="each provided backend operation against the ghost stack/queue contract from every (buffer,pos) with <= 4 words")
prop("C18", explanation="size/emptiness/exhaustion queries tied to the export at the same state")
prop("C19", level="model_checking", explanation="constructors: Ok <=> valid input, over all small tables / all ranges of narrow types; clean panics permitted")
prop("C20", level="model_checking", explanation="per type with unsafe code: constructors establish the invariant, safe methods preserve it, invariant implies each unsafe precondition; "
     "Kani's automatic pointer / unsafe-precondition / overflow checks located in /repo/src are the obligations")

claim("C01", "Extracted encode/decode steps == layer-B rANS steps == mathematical push/pop (Verus, 6 widths, all P) and pop(push) = id, histories of any nesting (lemmas); from_binary / "
      "read_initial_state (= from_compressed) under contract for data of any length (Verus); Kani contracts on the real crate at (u8,u16): round trip per step, export/import inverse, batch forms == loop.",
      K_NOTE, "Verus contracts on extracted text + lemmas; Kani function contracts")
claim("C02", "Unbounded: extracted encode/decode/seal bodies verified against layer-B step functions (Verus, 6 widths, all P, any number of held-back words), bridged to the interval "
      "model, and lemma_message_roundtrip closes messages of any length; Kani contracts on the real crate at (u8,u16) incl. whole messages of <= 3 symbols.",
      K_NOTE + "; the composition of seal_words with the data-value predicate is checked by Kani at two width pairs, not as one Verus theorem (listed in the evidence)",
      "Verus contracts on extracted text + bridging theorems + interval lemmas; Kani function contracts")
claim("C03", "Query functions of uniform / contiguous / lookup models == spec entry for every symbol and quantile, tables of any size (Verus); model contract for every constructor output within the stated bounds (Kani).",
      "Kani on the real model code; Vec-backed tables bounded to <= 3 entries; quantiser CDFs abstracted as step-shaped / monotone stub functions; `_perfect` constructors and concrete special-function CDFs not covered",
      "Verus contracts on extracted query functions; bounded Kani contracts on constructors")
claim("C04", "push(pop) = id on the mathematical view (lemma) linked to the extracted steps (Verus, 6 widths); from_binary denotes exactly marker ++ data for data of any length incl. trailing zero words (Verus); "
      "Kani: per-step contract encode(decode(c,e),e) == c for every invariant state, raw-binary import/export inverse, num_valid_bits.", K_NOTE, "Verus contracts on extracted text + lemmas; Kani function contracts")
claim("C05", "Representations agree symbol by symbol / quantile by quantile within the stated bounds.", "Kani on the real code, bounded tables", "function contracts (Kani)")
claim("C06", "Real encode/decode steps equal the published rANS / range-coding steps written as independent spec functions.", K_NOTE,
      "refinement of real functions to a spec function (Kani miter, Verus on extracted text)")
claim("C07", "Range coder: extracted pos / read_point / seek under contract (Verus, 6 widths, any number of held-back words, any data length), bridged to the interval model where thm_seek_coupled / "
      "thm_seek_resumes give every later symbol wherever the decoder was before; ANS: extracted pos / seek restore the snapshot's view; Kani contracts at (u8,u16) and for the backends.", K_NOTE,
      "Verus contracts on extracted text + interval lemmas; Kani function contracts")
claim("C08", "Guard contracts (view == export, drop restores) for ANS, and bit-level coders.", K_NOTE, "function contracts (Kani)")
claim("C09", "Error paths leave the coder untouched and report the documented error; models reject every out-of-support symbol value.", K_NOTE, "function contracts (Kani, Verus)")
claim("C10", "Decode steps are total from every state satisfying the documented invariants (Verus: ANS, range, chain, 5-6 widths, all P; Kani (u8,u16)); the constructors establish those invariants "
      "(from_binary, read_initial_state, read_point, ChainCoderHeads::new in Verus for data of any length); model lookups in bounds for tables of any size; quantiser search bounded (step CDFs) with a termination contract.",
      K_NOTE, "function contracts (Verus on extracted text, Kani)")
claim("C11", "Seal contract with arbitrary suffix for every encoder state at State = 2 Words; State wider than 2 Words is a recorded finding.", K_NOTE, "function contract on seal (Kani)")
claim("C12", "At most one word per symbol and the integer potential inequality per step (ANS and range coder).", K_NOTE + "; A-log: passing from the product inequality to the logarithmic statement is paper mathematics",
      "function contracts (Kani) + Verus potential lemma")
claim("C13", "Chain-coder decode / encode steps and ChainCoderHeads::new under contract (Verus, 5 widths, all P, any data length); steps mutually inverse from every head state, export routes from every whole head state, "
      "precision changes undo (Kani (u8,u16)); multi-step routes bounded.", K_NOTE + "; arbitrary heads through the cfg(constriction_verif) hook", "function contracts (Verus on extracted text, Kani)")
claim("C14", "Functional locality contract of ChainCoder::decode_symbol (Verus, 5 widths, all P <= Word bits; Kani (u8,u16)) and of the constructors (fewest words into the head).", K_NOTE, "function contract (Verus on extracted text, Kani)")
claim("C15", "Bounded check of both Huffman trees against a reference merge (n <= 3 quick, 4 thorough).", "bounded in n; BinaryHeap executed, not specified; optimality for all n is Huffman's theorem (paper)", "bounded Kani harness with reference")
claim("C16", "write_bit / read_bit of the stack coder, queue encoder and queue decoder against the abstract bit sequence for every word type (u8/u16/u32), fill level and backend length (Verus on extracted text); "
      "export / re-import, guards, length and Exp-Golomb for every u8 (u16 thorough) by Kani over u8 words.",
      "Kani parts bounded to <= 10 bits of content over u8 words (code generic in Word)", "function contracts against a ghost bit sequence (Verus on extracted text, Kani)")
claim("C17", "Every operation of Cursor / Reverse<Cursor> / Vec against the stack/queue contract from every (buffer,pos) with <= 4 symbolic words; SmallVec and adapters bounded.",
      "Kani bit-precise on the real impls incl. get_unchecked; longer buffers by genericity in the length", "function contracts per backend operation (Kani)")
claim("C18", "Size/emptiness/exhaustion queries equal the length of the export at the same state (ANS all widths, range encoder all situations, bit coders).", K_NOTE + "; entropy / cross entropy / KL diagnostics: bounded stand-in only (two concrete models, concrete reference distributions incl. zeros and a subnormal entry, CBMC's log2 model, tolerance 1e-6), never counted as proved", "function contracts (Kani)")
claim("C19", "Constructors accept exactly the valid inputs within the stated bounds; clean panics permitted.", "bounded tables (<= 3 entries); LeakyQuantizer::new / UniformModel::new complete over narrow types", "function contracts (Kani)")
claim("C20", "Unsafe preconditions (unchecked indexing, NonZero::new_unchecked, unreachable_unchecked) and overflow checks discharged on every harness path; Cursor::buf_mut is a recorded finding.",
      "Kani's automatic checks; only code reached by the harnesses of C01-C19", "invariant-based safety contracts (Kani automatic obligations)")

# ---------------- lemma layer (hand written Verus, width-parametric, no code from /repo)
lemma("lemmas_range_interval.rs", ["C02", "C07", "C11"])
lemma("lemmas_range_bridge.rs", ["C02", "C06", "C11"])
lemma("lemmas_seal.rs", ["C11", "C02"])
lemma("lemmas_chain.rs", ["C13"])
kani("range::guard_u8_u16", ["C08", "C18", "C02", "C06", "C11", "C12"], timeout=900, fns=[Q + "EncoderGuard::{new,drop}", Q + "RangeEncoder::{seal,unseal,num_seal_words,num_words,get_compressed}"],
     text="view == into_compressed() of a twin (all situations, n_inv<=2, pre-filled sink); drop restores bulk/state/situation")
kani("models::float_view_uniform_u16_p12", ["C18"], fns=[M + "model.rs::EncoderModel::floating_point_probability"],
     text="floating_point_probability * 2^P == probability exactly; 0 outside the support")

# ---------------- Verus unit: range encoder sealing (queue.rs)
_RE_IMPL = "impl<Word, State, Backend> RangeEncoder<Word, State, Backend>\nwhere\n    Word: BitArray + Into<State>,\n    State: BitArray + AsPrimitive<Word>,\n    Backend: WriteWords<Word>,\n{"
verus_unit(
    name="range_seal", template="range_seal_unit.rs.tmpl",
    widths=["u8_u16", "u8_u32", "u8_u64", "u16_u32", "u16_u64", "u32_u64"],
    slots={
        "SEAL": dict(file="src/stream/queue.rs", anchor=_RE_IMPL, fn="seal", extra=[
            (r"\.as_\(\);", ".s2w();", 2),
            (r"for _ in 1\.\.num_inverted\.get\(\) \{", "for _i in 1..num_inverted\n    invariant 1 <= _i <= num_inverted || num_inverted == 0, slf.bulk@ == b0.push(first_word) + rep(consecutive_words, (_i - 1) as nat), slf.state == old(slf).state, slf.situation == old(slf).situation, sw == seal_words(slf.state, slf.situation)\n {", 1),
        ]),
        "NUM_SEAL_WORDS": dict(file="src/stream/queue.rs", anchor=_RE_IMPL, fn="num_seal_words", extra=[
            (r"\.as_\(\);", ".s2w();", 2),
        ]),
    },
    obligations={
        "seal": dict(own=["C06", "C08", "C11", "C12", "C18"], dep=["C02"], kani_twin="range::u8_u16_p8::seal_suffix",
                     text="ensures: bulk' == bulk ++ seal_words(state, situation) for any n_inv; state and situation untouched"),
        "num_seal_words": dict(own=["C18", "C08"], dep=[], text="ensures: count == |seal_words(state, situation)|"),
        "thm_seal_words_is_seal_seq": dict(own=["C11", "C02", "C06"], dep=[], text="layer B = layer A: seal_words on machine values is seal_seq of the math layer, to which thm_seal_contains applies (any suffix stays inside the interval, State = 2 Words)"),
    },
)
kani("models::quantizer_reject_i16_u8_p8", ["C09", "C03"], fns=[M + "quantize.rs::<LeakilyQuantizedDistribution as EncoderModel>::left_cumulative_and_probability"],
     text="Some iff min <= symbol <= max for every i16 symbol and every support of <= 256 symbols (probability type u8)")

# ---------------- Verus unit: range decoder step (queue.rs)
_RD_IMPL = "Decode<PRECISION>\n    for RangeDecoder<Word, State, Backend>"
verus_unit(
    name="range_dec", template="range_dec_unit.rs.tmpl",
    widths=["u8_u16", "u8_u32", "u8_u64", "u16_u32", "u16_u64", "u32_u64"],
    slots={
        "DECODE": dict(file="src/stream/queue.rs", anchor=_RD_IMPL, fn="decode_symbol", extra=[
            (r"self\.bulk\.read\(\)\?", "self.bulk.read().be()?", 1),
            (r"word\.into\(\)", "word.w2s()", 1),
            (r"\.expect\(\"TODO\"\)", ".unwrap()", 1),
            # ghost-only insertion at a recorded anchor (DESIGN §3 step 3): lemma call after the model lookup
            (r"(model\.quantile_function\(quantile\.as_\(\)\.as_\(\)\);)", r"\1\n        proof { lemma_dec_step(scale, quantile, left_sided_cumulative, probability, self.state.lower, self.state.range, self.point, PRECISION); }", 1),
        ]),
    },
    obligations={
        "decode_symbol": dict(own=["C10", "C02", "C06", "C20"], dep=["C07", "C11"], kani_twin="range::u8_u16_p3::dec_step",
                              text="ensures: InvalidData iff quantile >= 2^P (state untouched); else Ok(model symbol of the quantile), invariants point-lower<range and range>=2^(sb-wb) re-established, state follows the interval step; all P"),
        "thm_decode_is_dec_step": dict(own=["C02", "C06"], dep=[], text="layer B = layer A: the decoder postcondition is dec_quantile / dec_step of the interval model (to which lemma_coupling and lemma_message_roundtrip apply)"),
    },
)
kani("bits::stack_pop_then_push", ["C16", "C18"], fns=[S + "StackCoder::read_bit", S + "StackCoder::write_bit", S + "StackCoder::into_compressed"],
     text="after n writes, k<=2 reads, one write: export == packing of the remaining bits ++ [y]")
# huffman::f32_n3 (3 symbolic f32 weights, encoder vs decoder tree) does not finish in 60 min: not registered. Float codebooks are not covered (DESIGN 0.5).
# models::quantizer_search_u8 / _i8 (EVERY support of the symbol type symbolic) never finished (> 15 min each on several tries):
# not registered.  The search is covered for supports of <= 8 symbols anywhere in the type (quick), the full supports
# 0..=255 / -128..=127, 100..=255, -10..=20 and the wide signed support -100..=100 (thorough), all with step-shaped CDFs.
# models::generic_decoder_* / generic_encoder_* (to_generic_decoder_model / to_generic_encoder_model on 2-symbol tables) exhaust
# CBMC's memory (Vec::extend over an impl-Iterator chain; hashbrown): measured, not registered.  The conversions are
# covered only through symbol_table (rows == encoder view), from which both conversions are built.
kani("models::lazy_vs_eager_small_p8", ["C05", "C03", "C10", "C09"], kind="bounded", bound="3 entries from {0,0.5,1,3}", timeout=900,
     fns=[M + "categorical/lazy_contiguous.rs::LazyContiguousCategoricalEntropyModel::{from_floating_point_probabilities_fast,left_cumulative_and_probability,quantile_function}"])
for p, tier in (("p5", "quick"), ("p8", "quick"), ("p3", "thorough")):
    kani(f"chain::u8_u16_{p}::exports", ["C13"], tier=tier, fns=[CH + "ChainCoder::into_compressed", CH + "ChainCoder::into_binary"],
         text="from any whole head state: into_compressed == compressed ++ all head words; into_binary Ok iff marker on a word boundary, == compressed ++ words below the marker; remainders handed back")
    kani(f"chain::u8_u16_{p}::new_heads", ["C13", "C14", "C20", "C10"], tier=tier, fns=[CH + "ChainCoderHeads::new", CH + "ChainCoder::from_binary", CH + "ChainCoder::from_compressed"],
         text="fresh coder: remainders head takes the fewest words reaching 2^(sb-wb-P); compressed head empty; Err iff data cannot fill the head")
kani("models::lookup_noncontiguous_any_quantile_p3", ["C20", "C10", "C03"], kind="bounded", bound="one 3-entry table at P = 3, every u8 quantile value", allow=[r"assertion failed: quantile", r"This is a placeholder message"],
     fns=[M + "categorical/lookup_noncontiguous.rs::NonContiguousLookupDecoderModel::{from_symbols_and_nonzero_fixed_point_probabilities,quantile_function}"],
     text="any quantile value: in range => the entry that holds it; out of range => clean panic, never an out-of-bounds table access")
kani("models::fast_f32_rejects_bad_entries", ["C19"], fns=[M + "categorical.rs::fast_quantized_cdf"],
     text="any NaN or negative entry => Err, for every (also caller-supplied) normalisation")
kani("models::non_contiguous_fast_counts", ["C19", "C03"], kind="bounded", bound="3 probabilities, 1..4 symbols", timeout=900,
     fns=[M + "categorical/non_contiguous.rs::NonContiguousCategoricalDecoderModel::from_symbols_and_floating_point_probabilities_fast"],
     text="Ok iff the number of symbols equals the number of probabilities")

# ---------------- Verus unit: UniformModel queries (uniform.rs) + wrapping_pow2 (lib.rs)
_U_ENC = "EncoderModel<PRECISION>\n    for UniformModel<Probability, PRECISION>"
_U_DEC = "DecoderModel<PRECISION>\n    for UniformModel<Probability, PRECISION>"
verus_unit(
    name="uniform", template="uniform_unit.rs.tmpl",
    widths=["u8_u16", "u16_u32", "u32_u64"],   # only the Word column is used: Probability = u8, u16, u32
    slots={
        "WPOW2": dict(file="src/lib.rs", anchor="#[inline(always)]\nfn wrapping_pow2", fn="wrapping_pow2", extra=[
            (r"T::BITS", "PROB_BITS", 1), (r"T::zero\(\)", "(0 as Probability)", 1), (r"T::one\(\)", "(1 as Probability)", 1),
        ]),
        "LCP": dict(file="src/stream/model/uniform.rs", anchor=_U_ENC, fn="left_cumulative_and_probability", extra=[
            (r"\*symbol\.borrow\(\) >", "symbol >", 1),
            (r"symbol\.borrow\(\)\.as_\(\)", "symbol.u2p()", 1),
            (r"\.wrapping_mul\(&", ".wrapping_mul(", 1),
            (r"wrapping_pow2::<Probability>\(PRECISION\)", "wrapping_pow2(PRECISION)", 1),
            (r"#\[allow\(clippy::comparison_chain\)\]", "", 1),
        ]),
        "QUANTILE": dict(file="src/stream/model/uniform.rs", anchor=_U_DEC, fn="quantile_function", extra=[
            (r"symbol_guess\.as_\(\)", "symbol_guess.p2u()", 1),
            (r"self\.last_symbol\.as_\(\)", "self.last_symbol.p2u()", 1),
            (r"wrapping_pow2::<Probability>\(PRECISION\)", "wrapping_pow2(PRECISION)", 1),
        ]),
    },
    obligations={
        "wrapping_pow2": dict(own=["C03", "C20"], dep=["C09", "C05"], text="ensures: 2^e for e < BITS, 0 for e >= BITS"),
        "left_cumulative_and_probability": dict(own=["C03", "C09", "C20"], dep=["C05"], kani_twin="models::uniform_u8_p8::valid",
                                                text="ensures: None iff symbol > last_symbol (compared as usize); else the spec entry (s*ppb, ppb) / last: (s*ppb, 2^P - s*ppb) with probability >= 1 [all P]"),
        "quantile_function": dict(own=["C03", "C10", "C20"], dep=["C05"], kani_twin="models::uniform_u8_p8::valid",
                                  text="ensures: returns (s,c,p) with entry(s) == (c,p) and c <= q < c+p [all P]"),
        "lemma_tiling": dict(own=["C03"], dep=[], text="entries tile [0,2^P) consecutively, non-empty, none is the whole mass"),
    },
)
kani("models::lazy_f32_rejects_bad_entries", ["C19"], fns=[M + "categorical/lazy_contiguous.rs::LazyContiguousCategoricalEntropyModel::from_floating_point_probabilities_fast"],
     text="any NaN or negative entry => Err, for every normalisation")

# ---------------- Verus unit: range encoder step (queue.rs)
_REN_IMPL = "Encode<PRECISION>\n    for RangeEncoder<Word, State, Backend>"
verus_unit(
    name="range_enc", template="range_enc_unit.rs.tmpl",
    widths=["u8_u16", "u8_u32", "u8_u64", "u16_u32", "u16_u64", "u32_u64"],
    slots={
        "ENCODE": dict(file="src/stream/queue.rs", anchor=_REN_IMPL, fn="encode_symbol", extra=[
            (r"model\s*\.left_cumulative_and_probability\(symbol\)\s*\.ok_or_else\(\|\| DefaultEncoderFrontendError::ImpossibleSymbol\.into_coder_error\(\)\)\?",
             "model.left_cumulative_and_probability(symbol).ok_or_impossible()?", 1),
            (r"\.into_nonzero\(\)\s*\.ok_or_else\(\|\| DefaultEncoderFrontendError::ImpossibleSymbol\.into_coder_error\(\)\)\?", ".nz().ok_or_impossible()?", 1),
            (r"self\.bulk\.write\((\w+)\)\?;", r"self.bulk.write(\1).be()?;", 3),
            (r"\.as_\(\);", ".s2w();", 1),
            (r"\.expect\(\"[^\"]*\"\)", ".unwrap()", 2),
            # R14: `if let Inverted(n, _) = &mut self.situation { *n = X; }` (in-place update through a &mut pattern,
            # unsupported by Verus) -> the same update written as a whole-field assignment
            (r"if let EncoderSituation::Inverted\(num_inverted, _\) = &mut self\.situation \{\s*(?://[^\n]*\n\s*)*\*num_inverted = ([^;]*);",
             r"if let EncoderSituation::Inverted(num_inverted, w__) = self.situation {\n                self.situation = EncoderSituation::Inverted(\1, w__);", 1),
            # ghost-only: loop invariant at the recorded loop header
            (r"for _ in 1\.\.num_inverted\.get\(\) \{",
             "for _i in 1..num_inverted\n    invariant 1 <= _i <= num_inverted || num_inverted == 0, slf.bulk@ == b0.push(first_word) + rep(consecutive_words, (_i - 1) as nat), slf.state.lower == lower0, symbol == model.sym\n {", 1),
        ]),
    },
    obligations={
        "encode_symbol": dict(own=["C06", "C09", "C12", "C20"], dep=["C02", "C07", "C11"], kani_twin="range::u8_u16_p8::enc_step_refines",
                              text="ensures: impossible symbol => Err(Frontend), encoder untouched; Ok => (lower,range,situation,emitted words) == ll_enc(..) for any number of held-back words; <= 1 word more; range >= 2^(sb-wb) [all P]"),
        "thm_ll_enc_is_cstep": dict(own=["C06", "C02"], dep=[], text="layer B = layer A: ll_enc on machine values is the mathematical bookkeeping step cstep (whose abstraction is the exact interval step, lemma_bridge)"),
    },
)
for _n in ("2",):   # the accepting / surplus-symbol variants (_3, _4) need 16-19 GB of CBMC memory (Vec::resize with float-derived lengths): not registered
    kani("models::lookup_noncontiguous_fast_counts_" + _n, ["C19", "C20", "C10"], kind="bounded", bound="3 probabilities, " + _n + " symbols, P=3",
         fns=[M + "categorical/lookup_noncontiguous.rs::NonContiguousLookupDecoderModel::{from_symbols_and_floating_point_probabilities_fast,from_symbol_table,quantile_function}"],
         text="Ok iff #symbols == #probabilities; every quantile of an accepted model is answered in bounds")
kani("models::fast_f32_n2_p8", ["C19", "C03", "C20"], kind="bounded", bound="2 f32 entries (all bit patterns)", timeout=1200,
     fns=[M + "categorical.rs::fast_quantized_cdf", M + "categorical/contiguous.rs::ContiguousCategoricalEntropyModel::from_floating_point_probabilities_fast"])

# ---------------- Verus unit: random access into range-coded data (queue.rs: pos, read_point, seek)
verus_unit(
    name="range_seek", template="range_seek_unit.rs.tmpl",
    widths=["u8_u16", "u8_u32", "u8_u64", "u16_u32", "u16_u64", "u32_u64"],
    slots={
        "POS": dict(file="src/stream/queue.rs", anchor="Pos for RangeEncoder<Word, State, Backend>", fn="pos", extra=[]),
        "READ_POINT": dict(file="src/stream/queue.rs", anchor="impl<Word, State, Backend> RangeDecoder<Word, State, Backend>", fn="read_point", extra=[
            # R16: `while let Some(x) = e { body }` (unsupported by Verus) -> its desugaring
            # `loop { let o = e; if o.is_none() { break; } let x = o.unwrap(); body }`, plus the ghost-only loop contract
            (r"while let Some\(word\) = bulk\.read\(\)\? \{",
             "loop\n            invariant_except_break num_read < nw(),\n            invariant static_ok(), bulk.wf(), bulk.v@ == old(bulk).v@, rest0 == old(bulk).rest(), pos0 == old(bulk).pos, num_read <= nw(), bulk.pos == pos0 + num_read, num_read <= rest0.len(),\n"
             "                point as nat == winw(rest0, num_read as nat), (point as nat) < p2w(num_read as nat),\n"
             "            ensures num_read == nw() || rest0.len() == num_read,\n            decreases nw() - num_read\n        {\n"
             "            let o__ = bulk.read()?; if o__.is_none() { break; } let word = o__.unwrap();\n"
             "            proof { lemma_read_step(point, word, num_read); assert(word == rest0[num_read as int]); }", 1),
            (r"word\.into\(\)", "word.w2s()", 1),
            # ghost-only insertions at recorded anchors
            (r"(if num_read != 0 \{)", r"\1 proof { lemma_shl_pad(point, num_read); }", 1),
            (r"Ok\(point\)", "proof { lemma_p2w(0); if num_read < nw() { lemma_winw_pad(rest0, num_read as nat, nw()); assert(winw(rest0, 0) == 0); if num_read == 0 { assert(winw(rest0, nw()) == 0); } }\n                assert(point as nat == winw(rest0, nw())); }\n        Ok(point)", 1),
        ]),
        "SEEK": dict(file="src/stream/queue.rs", anchor="Seek for RangeDecoder<Word, State, Backend>", fn="seek", extra=[
            (r"Self::read_point\(&mut self\.bulk\)\.map_err\(\|_\| \(\)\)\?", "read_point(&mut self.bulk)?", 1),
        ]),
    },
    obligations={
        "pos": dict(own=["C07"], dep=[], kani_twin="range::u8_u16_p8::enc_pos", text="ensures: position == words written + words held back (any number), state == encoder state"),
        "read_point": dict(own=["C07", "C10"], dep=["C02", "C11"], text="ensures: total; window value of the next State/Word words, zero padded at the end of data; consumes min(State/Word, remaining) words"),
        "seek": dict(own=["C07"], dep=[], kani_twin="range::u8_u16_p8::dec_seek", text="ensures: Err iff pos > len; else state := given, point := window at pos, backend behind the window"),
        "thm_seek_is_sought": dict(own=["C07"], dep=[], text="layer B = layer A: the decoder left by seek is `sought` of the interval model, to which thm_seek_coupled / thm_seek_resumes (lemmas_range_interval.rs) apply: decoding resumes with exactly the symbols after the snapshot, wherever the decoder was before"),
    },
)

kani("range::is_empty_u8_u16", ["C18", "C12"], fns=[Q + "RangeEncoder::is_empty", Q + "RangeEncoder::num_words"], text="is_empty == (export is empty), num_words == export length, also on a sink that already holds words")
kani("range::clear_then_encode_u8_u16", ["C02", "C06", "C12"], fns=[Q + "RangeEncoder::clear", QE, Q + "RangeEncoder::seal"], timeout=1200,
     text="from ANY encoder state (incl. held-back words): clear(), encode one symbol, seal == what a new encoder seals for that symbol")
# ---------------- Verus unit: bit-level stack / queue coders (symbol/mod.rs)
verus_unit(
    name="bits", template="bits_unit.rs.tmpl",
    widths=["u8_u16", "u16_u32", "u32_u64"],   # only the Word column is used: Word = u8, u16, u32
    slots={
        "STACK_WRITE": dict(file="src/symbol/mod.rs", anchor="WriteBitStream<Stack> for StackCoder<Word, B>", fn="write_bit", extra=[]),
        "STACK_READ": dict(file="src/symbol/mod.rs", anchor="ReadBitStream<Stack> for StackCoder<Word, B>", fn="read_bit", extra=[]),
        "QUEUE_WRITE": dict(file="src/symbol/mod.rs", anchor="WriteBitStream<Queue> for QueueEncoder<Word, B>", fn="write_bit", extra=[]),
        "QUEUE_READ": dict(file="src/symbol/mod.rs", anchor="ReadBitStream<Queue> for QueueDecoder<Word, B>", fn="read_bit", extra=[]),
    },
    obligations={
        "stack_write_bit": dict(own=["C16"], dep=["C08"], kani_twin="bits::stack_write_read", text="ensures: bit view' == view.push(bit) for every fill level of the partial word and any backend length; a refused write leaves the coder intact"),
        "stack_read_bit": dict(own=["C16"], dep=["C08"], kani_twin="bits::stack_write_read", text="ensures: None iff the view is empty (coder untouched); else Some(view.last()) and view' == view.drop_last()"),
        "queue_write_bit": dict(own=["C16"], dep=["C08"], kani_twin="bits::queue_roundtrip", text="ensures: bit view' == view.push(bit)"),
        "queue_read_bit": dict(own=["C16"], dep=[], kani_twin="bits::queue_roundtrip", text="ensures: returns bit number `cursor` of the backend's words (LSB first) and advances the cursor by one; None iff the cursor is at the end"),
    },
)

# ---------------- Verus unit: chain coder decoding step (chain.rs)
_CH_DEC = "Decode<PRECISION>\n    for ChainCoder<Word, State, CompressedBackend, RemaindersBackend, PRECISION>"
verus_unit(
    name="chain_dec", template="chain_dec_unit.rs.tmpl",
    widths=["u8_u16", "u8_u32", "u16_u32", "u16_u64", "u32_u64"],
    slots={
        "FLUSH": dict(file="src/stream/chain.rs", anchor="fn flush_remainders_head", fn="flush_remainders_head", extra=[
            (r"\.write\(self\.heads\.remainders\.as_\(\)\)\s*\.map_err\(\|err\| CoderError::Backend\(BackendError::Remainders\(err\)\)\)\?", ".write(self.heads.remainders.s2w()).ber()?", 1),
        ]),
        "HEADS_NEW": dict(file="src/stream/chain.rs", anchor="/// Private on purpose.", fn="new", extra=[
            (r"source\.read\(\)\?\s*\{", "source.read().bek()? {", 1),
            (r"Some\(word\) if word != Word::zero\(\) => word\.into\(\),", "Some(word) if word != (0 as Word) => { proof { lemma_new_first(data0); } word.w2s() },", 1),
            (r"return Err\(CoderError::Frontend\(\(\)\)\)", "return Err(NewError::Frontend)", 1),
            # ghost-only: loop contract between the (untouched) loop condition and the body
            (r"while ([^{]*?)\{",
             r"while \1" "\n            invariant static_ok(PRECISION), threshold as nat == pow2((STATE_BITS - WORD_BITS - PRECISION) as nat), remainders_head >= 1, (remainders_head as nat) < pow2((STATE_BITS - PRECISION) as nat),\n"
             "                source@.len() <= data0.len(), source@ == data0.subrange(0, source@.len() as int), bigv(source@, remainders_head) == bigv(data0, if push_one { 1 } else { 0 }),\n"
             "            decreases source@.len()\n        {\n            proof { lemma_new_facts(PRECISION); if source@.len() > 0 { lemma_new_step(source@, remainders_head, PRECISION); assert(source@.drop_last() =~= data0.subrange(0, source@.len() - 1)); } }", 1),
            (r"\|\s*source\.read\(\)\?\.ok_or\(CoderError::Frontend\(\(\)\)\)\?\.into\(\)", "| source.read().bek()?.ok_or_frontend()?.w2s()", 1),
            (r"Ok\(ChainCoderHeads \{\s*compressed: Word::one\(\)\.into_nonzero\(\)\.expect\(\"1 != 0\"\),\s*remainders: remainders_head,\s*\}\)", "Ok(Heads { compressed: word_one_nz(), remainders: remainders_head })", 1),
        ]),
        "DECODE": dict(file="src/stream/chain.rs", anchor=_CH_DEC, fn="decode_symbol", extra=[
            (r"\.read\(\)\s*\.map_err\(BackendError::Compressed\)\?\s*\.ok_or\(CoderError::Frontend\(\s*DecoderFrontendError::OutOfCompressedData,?\s*\)\)\?", ".read().bec()?.ok_or_out_of_data()?", 1),
            (r"Word::NonZero::new_unchecked\(", "nzw_unchecked(", 2),
            (r"quantile\.as_\(\);", "quantile.w2p();", 1),
            (r"self\.flush_remainders_head\(\)\?", "flush_remainders_head(self)?", 1),
            # ghost-only insertion at a recorded anchor: lemma call after the model lookup
            (r"(model\.quantile_function\(quantile\);)", r"\1\n        proof { lemma_chain_step(self.heads.remainders, quantile, left_sided_cumulative, probability, PRECISION); }", 1),
        ]),
    },
    obligations={
        "heads_new": dict(own=["C13", "C14", "C10", "C20"], dep=[], kani_twin="chain::u8_u16_p5::new_heads",
                          text="ChainCoderHeads::new (data of ANY length, all P): Ok => both bounds of the remainders-head invariant, empty compressed head, remaining source is a prefix of the data, (head, rest) denotes marker ++ data resp. data"),
        "flush_remainders_head": dict(own=["C13", "C20"], dep=["C14", "C10"], text="ensures: pushes the low word of the remainders head and shifts it; failure leaves everything unchanged"),
        "decode_symbol": dict(own=["C14", "C13", "C10", "C20"], dep=[], kani_twin="chain::u8_u16_p5::dec_step",
                              text="ensures: out-of-data iff a word is needed and none is left (coder unchanged); else symbol = model(next P-bit chunk), compressed side = old minus the chunk (independent of model and remainders), remainders step with flush iff >= 2^(sb-P), head invariants kept [all P <= Word bits]"),
        "thm_chunk_inverse": dict(own=["C13"], dep=[], text="compressed side: appending the chunk just taken restores the head and writes back the consumed word (bit-vector proof, symbolic P)"),
    },
)

# ---------------- Verus unit: chain coder encoding step (chain.rs)
_CH_ENC = "Encode<PRECISION>\n    for ChainCoder<Word, State, CompressedBackend, RemaindersBackend, PRECISION>"
verus_unit(
    name="chain_enc", template="chain_enc_unit.rs.tmpl",
    widths=["u8_u16", "u8_u32", "u16_u32", "u16_u64", "u32_u64"],
    slots={
        "REFILL": dict(file="src/stream/chain.rs", anchor="fn refill_remainders_head", fn="refill_remainders_head", extra=[
            (r"\.read\(\)\s*\.map_err\(\|err\| CoderError::Backend\(BackendError::Remainders\(err\)\)\)\?\s*\.ok_or\(CoderError::Frontend\(EncoderFrontendError::OutOfRemainders\)\)\?", ".read().ber()?.ok_or_out_of_remainders()?", 1),
            (r"word\.into\(\)", "word.w2s()", 1),
        ]),
        "ENCODE": dict(file="src/stream/chain.rs", anchor=_CH_ENC, fn="encode_symbol", extra=[
            (r"\.ok_or\(CoderError::Frontend\(EncoderFrontendError::ImpossibleSymbol\)\)\?", ".ok_or_impossible()?", 1),
            (r"self\.refill_remainders_head\(\)\?", "refill_remainders_head(self)?", 1),
            (r"\.as_\(\)\s*\.as_\(\)", ".s2p()", 1),
            (r"\(left_sided_cumulative \+ remainder\)\.into\(\)", "(left_sided_cumulative + remainder).p2w()", 1),
            (r"\.write\(word\)\s*\.map_err\(BackendError::Compressed\)\?", ".write(word).bec()?", 1),
        ]),
    },
    obligations={
        "refill_remainders_head": dict(own=["C13", "C20"], dep=[], text="ensures: pops the top remainders word into the head ((r << wb) | w); empty => Err(OutOfRemainders), unchanged"),
        "encode_symbol": dict(own=["C13", "C09", "C20"], dep=[], kani_twin="chain::u8_u16_p5::enc_dec",
                              text="ensures: impossible symbol / missing remainders reported with the coder untouched; else refill iff r < p<<(sb-wb-P), quantile = cum + r%p appended as one P-bit chunk to the compressed side, r' = r/p, head invariants kept [all P <= Word bits]"),
    },
)

# ---------------- Verus unit: ContiguousCategoricalEntropyModel queries (contiguous.rs)
_CC_IMPL = "impl<Probability, Cdf, const PRECISION: usize>\n    ContiguousCategoricalEntropyModel<Probability, Cdf, PRECISION>\nwhere\n    Probability: BitArray,\n    Cdf: AsRef<[Probability]>,"
_CC_ENC = "EncoderModel<PRECISION>\n    for ContiguousCategoricalEntropyModel<Probability, Cdf, PRECISION>"
_CC_DEC = "DecoderModel<PRECISION>\n    for ContiguousCategoricalEntropyModel<Probability, Cdf, PRECISION>"
_BS_HEAD = r"let monotonic_part_of_cdf = unsafe \{ cdf\.get_unchecked\(\.\.cdf\.len\(\) - 1\) \};\s*let Err\(next_symbol\) = monotonic_part_of_cdf\.binary_search_by\(\|&x\| \{\s*if x "
_BS_TAIL = r" quantile \{\s*core::cmp::Ordering::Less\s*\} else \{\s*core::cmp::Ordering::Greater\s*\}\s*\}\) else \{\s*unsafe \{ core::hint::unreachable_unchecked\(\) \}\s*\};"
_BS_RULE_LT = (_BS_HEAD + "<" + _BS_TAIL, "let next_symbol = partition_point_lt(cdf, cdf.len() - 1, quantile);", None)
_BS_RULE = (r"let monotonic_part_of_cdf = unsafe \{ cdf\.get_unchecked\(\.\.cdf\.len\(\) - 1\) \};\s*let Err\(next_symbol\) = monotonic_part_of_cdf\.binary_search_by\(\|&x\| \{\s*if x (<=) quantile \{\s*core::cmp::Ordering::Less\s*\} else \{\s*core::cmp::Ordering::Greater\s*\}\s*\}\) else \{\s*unsafe \{ core::hint::unreachable_unchecked\(\) \}\s*\};",
            "let next_symbol = partition_point_le(cdf, cdf.len() - 1, quantile);", None)
verus_unit(
    name="contiguous", template="contiguous_unit.rs.tmpl",
    widths=["u8_u16", "u16_u32", "u32_u64"],   # Probability = u8, u16, u32
    slots={
        "SUPPORT_SIZE": dict(file="src/stream/model/categorical/contiguous.rs", anchor=_CC_IMPL, fn="support_size", extra=[
            (r"self\.cdf\.as_ref\(\)\.len\(\)", "self.cdf.len()", 1)]),
        "LCP": dict(file="src/stream/model/categorical/contiguous.rs", anchor=_CC_ENC, fn="left_cumulative_and_probability", extra=[
            (r"\*symbol\.borrow\(\)", "symbol", 1),
            (r"self\.support_size\(\)", "support_size(self)", 1),
            (r"self\.cdf\.as_ref\(\)", "&self.cdf", 1),
            (r"\*cdf\.get_unchecked\(([^()]*)\)", r"cdf[\1]", 2),
        ]),
        "QUANTILE": dict(file="src/stream/model/categorical/contiguous.rs", anchor=_CC_DEC, fn="quantile_function", extra=[
            (r"self\.cdf\.as_ref\(\)", "&self.cdf", 1),
            # contract stub for std's binary_search_by (R15): the comparator's operator selects the stub
            _BS_RULE,
            _BS_RULE_LT,
            (r"\*cdf\.get_unchecked\(([^()]*)\)", r"cdf[\1]", 2),
        ]),
    },
    obligations={
        "support_size": dict(own=["C03"], dep=["C09", "C20"], text="ensures: cdf.len() - 1"),
        "left_cumulative_and_probability": dict(own=["C03", "C09", "C20"], dep=["C05"], text="ensures: None iff symbol >= support size; else the spec entry; get_unchecked in bounds; probability nonzero [any table size, all P]"),
        "quantile_function": dict(own=["C03", "C10", "C20"], dep=["C05"], text="ensures: entry(symbol) == (cum, prob) and cum <= q < cum + prob; indices in bounds; the unreachable_unchecked branch is unreachable under the binary_search contract [any table size, all P]"),
    },
)

# ---------------- Verus unit: ContiguousLookupDecoderModel::quantile_function (lookup_contiguous.rs)
_LK_DEC = "DecoderModel<PRECISION>\n    for ContiguousLookupDecoderModel<Probability, Cdf, LookupTable, PRECISION>"
verus_unit(
    name="lookup", template="lookup_unit.rs.tmpl",
    widths=["u8_u16", "u16_u32"],   # Probability = u8, u16 (the lookup presets)
    slots={
        "QUANTILE": dict(file="src/stream/model/categorical/lookup_contiguous.rs", anchor=_LK_DEC, fn="quantile_function", extra=[
            (r"if Probability::BITS != PRECISION \{\s*assert!\(", "if Probability::BITS != PRECISION {\n            vassert(", 1),
            (r"\*self\.lookup_table\.as_ref\(\)\.get_unchecked\(quantile\.into\(\)\)", "self.lookup_table[quantile.p2u()]", 1),
            (r"let index = index\.into\(\);", "let index = index.p2u();", 1),
            (r"self\.cdf\.as_ref\(\)", "&self.cdf", 1),
            (r"\*cdf\.get_unchecked\(([^()]*)\)", r"cdf[\1]", 2),
        ]),
    },
    obligations={
        "quantile_function": dict(own=["C10", "C03", "C20"], dep=["C05"], text="ensures: both unchecked accesses in bounds for any table size; probability nonzero; cum <= q < cum + prob [all P]"),
    },
)
QF = [M + "quantize.rs::<LeakilyQuantizedDistribution as DecoderModel>::quantile_function"]
kani("models::quantizer_search_small_u8", ["C03", "C10", "C20"], kind="bounded", bound="supports of <= 8 u8 symbols anywhere in the type (incl. at 0 and 255); step-shaped CDFs; all hints, quantiles", timeout=1500, fns=QF,
     text="search terminates, symbol in support, interval holds the quantile, == encoder view; wrong hints and supports touching Symbol::MIN/MAX included")
kani("models::quantizer_search_i8_wide", ["C10", "C03"], kind="bounded", bound="support -100..=100 (i8, wider than half the type), step-shaped CDFs, hints below/inside/above the support, every quantile", timeout=3600, fns=QF, tier="thorough",
     loop_contract=(["C10", "C03"], "quantile_function's search loops finish within 40 iterations: <= 7 doublings + <= 4 moves at the largest step + <= 7 halvings, inner loop <= 8"),
     text="terminates within the loop contract; symbol in support; interval holds the quantile; == encoder view")
kani("models::quantizer_search_i8_wide_tails", ["C10", "C03"], kind="bounded", bound="support -100..=100 (i8), all mass beyond one end and the hint at the other end, every quantile", timeout=1800, fns=QF,
     loop_contract=(["C10", "C03"], "quantile_function's search loops finish within 24 iterations: <= 7 doublings (1..64) + <= 4 moves at the largest step across 201 symbols + <= 7 halvings, inner loop <= 8"),
     text="terminates within the loop contract (found: step doubling into the sign bit never terminates); symbol in support; interval holds the quantile; == encoder view")
kani("range::decoder_constructors_u8_u16", ["C02", "C17"], fns=[Q + "RangeDecoder::for_compressed", Q + "RangeDecoder::from_compressed", "backends.rs::AsReadWords<Queue> for Buf", "backends.rs::IntoReadWords<Queue> for Buf"],
     text="for_compressed(&words) / from_compressed(words) start at the first word: point == first window, full interval")
kani("models::quantizer_decode_i8_u16_wide", ["C10", "C03"], kind="bounded", bound="step CDFs, exact inverse hint; support -100..=100 (i8) with u16 probabilities", fns=QF,
     text="every symbol's first quantile decodes back to it without overflow (sign extension of symbol - min masked)")
kani("models::lazy_flaky_pmf", ["C20"], fns=[M + "categorical/lazy_contiguous.rs::LazyContiguousCategoricalEntropyModel::{left_cumulative_and_probability,quantile_function}"],
     allow=[r"attempt to (add|subtract|multiply) with overflow", r"This is a placeholder message", r"index out of bounds"],
     text="a caller-supplied AsRef<[F]> that changes its answer between calls may produce wrong results or panics, never an unchecked access out of bounds (overflow / expect / bounds panics are clean failures here)")
kani("models::quantizer_wild_distribution", ["C20"], kind="bounded", bound="two-valued non-monotone 'CDF' from {0, .25, .5, 1}, support -4..=3",
     allow=[r"This is a placeholder message", r"attempt to (add|subtract) with overflow"],
     fns=[M + "quantize.rs::<LeakilyQuantizedDistribution as EncoderModel>::left_cumulative_and_probability"],
     text="a non-monotone caller-supplied distribution may make the model panic, never put a zero inside the non-zero probability type")
for _m in ("uniform_u8_p8", "uniform_u8_p5"):
    kani(f"models::{_m}::table_full", ["C05"], kind="bounded", bound="full alphabet (range == 2^P), one symbolic row", fns=[M + "uniform.rs::UniformModel::symbol_table"], text="row k of the symbol table of the full alphabet == encoder view of k, for every k")
kani("models::uniform_u64_p64_new", ["C03", "C20", "C09"], kind="bounded", bound="ranges 2, 3, 7, 1000, 65536 at PRECISION == usize::BITS == 64, every symbol",
     fns=[M + "uniform.rs::UniformModel::{new,left_cumulative_and_probability}"], text="bins non-empty, consecutive, start at 0, end at 2^64 (wrapped); symbol == range rejected")
kani("models::quantizer_view_i8_u16_wide", ["C03", "C09"], fns=[M + "quantize.rs::slack", M + "quantize.rs::<LeakilyQuantizedDistribution as EncoderModel>::left_cumulative_and_probability"],
     text="signed symbols narrower than the probability type, support wider than half the symbol type: every in-support symbol gets a non-empty interval, consecutive with its successor, first starts at 0, last ends at 2^P; others impossible (any step CDF)")
kani("models::quantizer_symbol_table_i8_u16_wide", ["C05"], kind="bounded", bound="one concrete step CDF, all 201 rows", timeout=1800,
     fns=[M + "quantize.rs::LeakilyQuantizedDistributionIter::next"], text="all 201 rows of symbol_table == encoder view (rows whose symbol - min exceeds i8::MAX included)")
kani("models::quantizer_search_small_i8", ["C03", "C10", "C20"], kind="bounded", bound="supports of <= 8 i8 symbols anywhere in the type; step-shaped CDFs", timeout=3600, tier="thorough", fns=QF)
kani("models::quantizer_search_u8_full", ["C03", "C10", "C20"], kind="bounded", bound="support 0..=255, step-shaped CDFs", timeout=3600, tier="thorough", fns=QF)
kani("models::quantizer_search_u8_top", ["C03", "C10", "C20"], kind="bounded", bound="support 100..=255, step-shaped CDFs", timeout=3600, tier="thorough", fns=QF)
kani("models::quantizer_search_i8_full", ["C03", "C10", "C20"], kind="bounded", bound="support -128..=127, step-shaped CDFs", timeout=3600, tier="thorough", fns=QF)
kani("models::quantizer_search_i8_mid", ["C03", "C10", "C20"], kind="bounded", bound="support -10..=20, step-shaped CDFs", timeout=3600, tier="thorough", fns=QF)
kani("models::entropy_is_finite_u8_p8", ["C18"], kind="bounded", bound="uniform models with 2..3 symbols, u8, P = 8 = Probability::BITS; CBMC's log2 model", timeout=1200,
     fns=[M + "model.rs::IterableEntropyModel::entropy_base2"],
     text="sanity contract only: entropy_base2 is finite and within [0, P] (the exact value is not decided: transcendental)")
kani("models::diagnostics_concrete_u8_p8", ["C18"], kind="bounded", bound="one concrete model (UniformModel<u8,8>::new(3): 85/256, 85/256, 86/256, PRECISION == Probability::BITS), reference distributions [1/2,1/4,1/4], [0,0,1], [1,1e-310,0]; f64; CBMC's log2 model; tolerance 1e-6", timeout=900,
     fns=[M + "model.rs::IterableEntropyModel::{entropy_base2,cross_entropy_base2,reverse_cross_entropy_base2,kl_divergence_base2,reverse_kl_divergence_base2}", M + "uniform.rs::<UniformModel as IterableEntropyModel>::symbol_table"],
     text="entropy, cross entropy, KL in both directions == textbook definitions on the exact fixed-point probabilities (unequal bins; exact zeros contribute nothing; a subnormal entry stays finite)")
kani("models::diagnostics_concrete_categorical_u16_p12", ["C18"], kind="bounded", bound="one concrete table 1/2, 1/4, 1/4 at u16, P = 12; reference distribution [1/4,1/2,1/4]; f64 (entropy also f32); CBMC's log2 model; tolerance 1e-6 (f32: 1e-4)", timeout=900,
     fns=[M + "model.rs::IterableEntropyModel::{entropy_base2,cross_entropy_base2,reverse_cross_entropy_base2,kl_divergence_base2,reverse_kl_divergence_base2}", M + "categorical/contiguous.rs::<ContiguousCategoricalEntropyModel as IterableEntropyModel>::symbol_table"],
     text="the same five diagnostics through the eager contiguous categorical model at PRECISION < Probability::BITS")
kani("range::u8_u32_p8::enc_potential", ["C12"], tier="thorough", timeout=7200, fns=[QE],
     text="range potential inequality and <= 1 word per symbol at State = 4 Words (measured: 31 min)")
for _p in ("p8", "p5"):
    kani("models::generic_decoder_concrete_" + _p, ["C05"], kind="bounded", bound="one concrete 3-symbol table, every quantile, " + _p,
         fns=[M + "model.rs::IterableEntropyModel::to_generic_decoder_model", M + "categorical/non_contiguous.rs::NonContiguousCategoricalDecoderModel::from_iterable_entropy_model"],
         text="to_generic_decoder_model(m).quantile_function(q) == m.quantile_function(q) for every q (incl. PRECISION == Probability::BITS)")
