"""Registry of units (Kani harnesses, extracted Verus units, lemma files) per property."""

PROPS = {}
KANI_UNITS = []
VERUS_UNITS = []
LEMMA_UNITS = []

TB_COMMON = [
    "Verus 0.2026.09.13 + Z3", "Kani 0.68 + CBMC 6.11 + kissat/cadical",
    "extraction rules R1-R13 (vk/verus.py) and conversion shims in the unit templates",
    "ghost entropy-model stub and ghost backend stub (DESIGN §4)",
    "unsafe trait BitArray impls behave as the primitive integers",
]


def prop(pid, level="proof", explanation="", trusted_base=(), assumptions=()):
    PROPS[pid] = dict(level=level, explanation=explanation,
                      trusted_base=TB_COMMON + list(trusted_base), assumptions=list(assumptions))


def kani(harness, props, tier="quick", kind="complete", bound="", fns=(), text="", timeout=600):
    KANI_UNITS.append(dict(harness=harness, props=list(props), tier=tier, kind=kind, bound=bound,
                           fns=list(fns), text=text, timeout=timeout))


def lemma(file, props, tier="quick", timeout=600):
    LEMMA_UNITS.append(dict(file=file, props=list(props), tier=tier, timeout=timeout))


def verus_unit(**kw):
    VERUS_UNITS.append(kw)


# =====================================================================================
# C01  ANS coder is a lossless stack
# =====================================================================================
prop("C01", explanation="pop(push(c,e),e) == c and inv preserved: per-step contract on the real "
     "AnsCoder::encode_symbol/decode_symbol (Kani, complete at (u8,u16), every state/entry); width-parametric "
     "Verus lemma lemma_pop_push + history induction; lift to all widths through the extracted-text "
     "refinement obligations (owned by C06).")
ENC = "stack.rs::<AnsCoder as Encode>::encode_symbol"
DEC = "stack.rs::<AnsCoder as Decode>::decode_symbol"
for p, tier in (("p8", "quick"), ("p3", "quick"), ("p1", "thorough"), ("p5", "thorough")):
    kani(f"ans::u8_u16_{p}::rt_push_pop", ["C01"], tier=tier, fns=[ENC, DEC], timeout=900,
         text="for all (bulk,state) with inv, all entries (cum,p) with 1<=p<2^P, cum+p<=2^P: decode(encode(c,e),e) == (e.sym, c)")
    kani(f"ans::u8_u16_{p}::rt_pop_push", ["C04"], tier=tier, fns=[ENC, DEC], timeout=900,
         text="for all inv states whose quantile lies in e: encode(decode(c,e),e) == c")
    kani(f"ans::u8_u16_{p}::conf_encode", ["C06"], tier=tier, fns=[ENC], timeout=900,
         text="encode step == spec_push (threshold state>>(sb-P) >= p, low word flushed, head (s/p)<<P + cum + s%p)")
    kani(f"ans::u8_u16_{p}::conf_decode", ["C06"], tier=tier, fns=[DEC], timeout=900,
         text="decode step == spec_pop (quantile = state mod 2^P, refill iff < 2^(sb-wb) and a word exists)")
    kani(f"ans::u8_u16_{p}::encode_errors", ["C09"], tier=tier, fns=[ENC],
         text="symbol outside support => Err(ImpossibleSymbol) and coder unchanged; k-th write refused => Err(Backend) and coder unchanged")
    kani(f"ans::u8_u16_{p}::decode_total", ["C10"], tier=tier, fns=[DEC],
         text="from ANY (bulk,state) (invariant or not), any entry incl. p == 2^P: decode is Ok, no overflow/panic, symbol from the model")
    kani(f"ans::u8_u16_{p}::potential", ["C12"], tier=tier, fns=[ENC],
         text="<= 1 word per symbol and Phi(after)*p*2^k <= Phi(before)*2^P*(2^k+1), Phi = max(state,2^(sb-wb))*2^(wb*|bulk|)")
for m in ("u16_u32_p12", "u32_u64_p24", "u32_u64_p32", "u8_u32_p8"):
    kani(f"ans::{m}::conf_decode", ["C06"], tier="quick" if m == "u32_u64_p24" else "thorough", fns=[DEC], timeout=900,
         text="decode step == spec_pop at wide widths (division-free)")
    kani(f"ans::{m}::decode_total", ["C10"], tier="quick" if m == "u32_u64_p24" else "thorough", fns=[DEC])

prop("C04")
prop("C06")
prop("C09")
prop("C10")
prop("C12")

# =====================================================================================
# Manifest texts (kept next to the registry so that MANIFEST.json is regenerated, never hand-edited)
# =====================================================================================
MANIFEST_META = {"_hook_commits": []}
NOT_APPLICABLE = {}


def claim(pid, text, note, technique):
    MANIFEST_META[pid] = dict(text=text, note=note, technique=technique)


K_NOTE = ("Kani/CBMC bit-precise on the compiled real crate; stub entropy model (one symbolic entry) and "
          "array-window backend stand for every model/backend satisfying the trait contracts (DESIGN §4); "
          "division-bearing steps complete at (u8,u16) only")

claim("C01", "Per-step contract decode(encode(c,e),e) == (sym,c) with invariant preservation, discharged for every "
      "state/entry at (u8,u16) on the real code; history/width generalisation by lemma.", K_NOTE,
      "function contracts (Kani) + Verus lemmas")
claim("C04", "Per-step contract encode(decode(c,e),e) == c for every invariant state.", K_NOTE, "function contracts (Kani) + Verus lemmas")
claim("C06", "Real encode/decode steps equal the published rANS step written as an independent spec function.", K_NOTE,
      "refinement of real functions to a spec function (Kani miter, Verus on extracted text)")
claim("C09", "Error paths of encode_symbol leave (bulk,state) untouched and report the documented error.", K_NOTE, "function contracts (Kani)")
claim("C10", "decode_symbol is total from ANY state, any well-formed entry; symbol comes from the model.", K_NOTE, "function contracts (Kani)")
claim("C12", "At most one word per symbol and the integer potential inequality per step.", K_NOTE + "; A-log: passing from the product inequality to the logarithmic statement is paper mathematics",
      "function contracts (Kani) + Verus potential lemma")
for _p in ("C02", "C03", "C05", "C07", "C08", "C11", "C13", "C14", "C15", "C16", "C17", "C18", "C19", "C20"):
    NOT_APPLICABLE[_p] = "check under construction in this session (see DESIGN.md §6); not yet claimed"

# ---------------- Verus unit: ANS (stack.rs)
_ANS_IMPL_ENC = "Encode<PRECISION>\n    for AnsCoder<Word, State, Backend>"
_ANS_IMPL_DEC = "Decode<PRECISION>\n    for AnsCoder<Word, State, Backend>"
verus_unit(
    name="ans", template="ans_unit.rs.tmpl",
    widths=["u8_u16", "u8_u32", "u8_u64", "u16_u32", "u16_u64", "u32_u64"],
    slots={
        "ENCODE": dict(file="src/stream/stack.rs", anchor=_ANS_IMPL_ENC, fn="encode_symbol", extra=[
            (r"model\s*\.left_cumulative_and_probability\(symbol\)\s*\.ok_or_else\(\|\| DefaultEncoderFrontendError::ImpossibleSymbol\.into_coder_error\(\)\)\?",
             "model.left_cumulative_and_probability(symbol).ok_or_impossible()?", 1),
            (r"self\.bulk\.write\(self\.state\.as_\(\)\)\?;", "self.bulk.write(self.state.s2w()).be()?;", 1),
        ]),
        "DECODE": dict(file="src/stream/stack.rs", anchor=_ANS_IMPL_DEC, fn="decode_symbol", extra=[
            (r"self\.bulk\.read\(\)\?", "self.bulk.read().be()?", 1),
            (r"word\.into\(\)", "word.w2s()", 1),
        ]),
    },
    obligations={
        "encode_symbol": dict(own=["C06", "C09"], dep=["C01", "C04", "C12"], kani_twin="ans::u8_u16_p8::conf_encode",
                              text="ensures: symbol outside model => Err(Frontend), coder unchanged; flush iff state>>(SB-P) >= p; failed write => Err(Backend), coder unchanged; state' == ll_push_head(..) [all P]"),
        "decode_symbol": dict(own=["C06", "C10"], dep=["C01", "C04"], kani_twin="ans::u8_u16_p8::conf_decode",
                              text="ensures: Ok(model.sym); state' == ll_pop_head(..), refill iff below 2^(SB-WB) and a word exists; no overflow [all P]"),
    },
)
lemma("lemmas_ans.rs", ["C01", "C04", "C12"])

# =====================================================================================
# C17  Word sources and sinks honour their contracts  (+ C20 Cursor invariant)
# =====================================================================================
prop("C17", explanation="each provided backend operation against the ghost stack/queue contract: one operation at a time "
     "from every reachable (buffer, pos) with buffers of <= 4 symbolic words; buffers of any length: Verus unit on the extracted Cursor text")
B = "backends.rs::"
for h, fns, txt in [
    ("cursor_constructors", ["Cursor::new_at_pos", "Cursor::new_at_pos_mut", "Cursor::new_at_write_beginning", "Cursor::new_at_write_end", "Cursor::new_at_write_end_mut"], "new_at_pos(buf,pos) is Ok iff pos <= len; pos() reports it"),
    ("cursor_stack_read", ["<Cursor as ReadWords<Stack>>::read", "<Cursor as BoundedReadWords<Stack>>::remaining"], "pos==0 => None (sticky), else Some(buf[pos-1]) and pos-1; remaining()==pos"),
    ("cursor_queue_read", ["<Cursor as ReadWords<Queue>>::read", "<Cursor as BoundedReadWords<Queue>>::remaining"], "pos==len => None (sticky), else Some(buf[pos]) and pos+1; remaining()==len-pos"),
    ("cursor_write", ["<Cursor as WriteWords>::write", "<Cursor as BoundedWriteWords>::space_left"], "write Ok iff pos<len, stores at buf[pos], frame: no other word changes; space_left()==len-pos"),
    ("cursor_seek", ["<Cursor as Seek>::seek", "<Cursor as Pos>::pos", "<Reverse as Seek>::seek"], "seek(p) Ok iff p<=len, then pos()==p; refused seek leaves pos"),
    ("reverse_cursor_write", ["<Reverse<Cursor> as WriteWords>::write", "<Reverse<Cursor> as BoundedWriteWords>::space_left"], "write Ok iff pos>0, stores at buf[pos-1]; space_left()==pos"),
    ("reverse_cursor_read", ["<Reverse as ReadWords<Queue>>::read", "<Reverse as ReadWords<Stack>>::read", "<Reverse as BoundedReadWords>::remaining"], "Reverse swaps semantics"),
    ("cursor_into_reversed", ["Cursor::into_reversed", "Reverse<Cursor>::into_reversed"], "read after in-place reversal == read before; twice == identity"),
    ("cursor_into_reversed_write", ["Cursor::into_reversed", "<Reverse<Cursor> as WriteWords>::write"], "write after in-place reversal lands at the same logical index; free space unchanged"),
    ("vec_backend", ["<Vec as WriteWords>::write", "<Vec as ReadWords<Stack>>::read", "<Vec as Seek>::seek", "<Vec as Pos>::pos"], "Vec is a LIFO; seek truncates; beyond end refused"),
]:
    kani("backends::" + h, ["C17", "C20"], fns=[B + f for f in fns], text=txt)
kani("backends::smallvec_backend", ["C17"], kind="bounded", bound="SmallVec<[u8;2]> with <= 3 words", fns=[B + "SmallVec impls"])
kani("backends::adapters", ["C17"], kind="bounded", bound="3-word iterator, 2 callback writes", fns=[B + "FallibleIteratorReadWords", B + "InfallibleCallbackWriteWords", B + "FallibleCallbackWriteWords"])
claim("C17", "Every operation of Cursor / Reverse<Cursor> / Vec checked against the stack/queue contract from every (buffer,pos) "
      "with <= 4 symbolic words (complete per operation: loop-free, full symbolic state); SmallVec and adapters bounded.",
      "Kani bit-precise on the real impls incl. get_unchecked; buffers longer than 4 words rely on the Verus Cursor unit / genericity in the length",
      "function contracts per backend operation (Kani)")
NOT_APPLICABLE.pop("C17", None)

prop("C20", explanation="per type with unsafe code: constructors establish the invariant, every safe method preserves it, the invariant implies each "
     "unsafe precondition; Kani's automatic pointer/unsafe-precondition/overflow checks located in /repo/src are the obligations")
kani("backends::cursor_buf_mut_then_read", ["C20"], fns=[B + "Cursor::buf_mut", B + "<Cursor as ReadWords<Stack>>::read"],
     text="safe sequence new_at_write_end(vec).buf_mut().truncate(k); stack read() must not index out of bounds")

# =====================================================================================
# C16  Bit-level stack and queue coders  (+ their guards for C08, their size queries for C18)
# =====================================================================================
prop("C16", explanation="ghost bit sequence b[0..n], n <= 10 (crosses the u8 word boundary, reaches the full-word and fresh-word "
     "representations); every operation checked against push/pop/enqueue/dequeue on the ghost sequence and against the LSB-first packing spec")
S = "symbol/mod.rs::"
kani("bits::stack_write_read", ["C16", "C18"], fns=[S + "StackCoder::write_bit", S + "StackCoder::read_bit", S + "SymbolCoder::len", S + "SymbolCoder::is_empty"],
     text="after any n<=10 writes: len()==n; write x; read == x; read == b[n-1] (None, sticky, on empty)")
kani("bits::stack_export_import", ["C16"], fns=[S + "StackCoder::into_compressed", S + "StackCoder::from_compressed"],
     text="into_compressed() == LSB-first packing + end marker; from_compressed(those words) holds the same n bits")
kani("bits::stack_import_any", ["C16", "C18"], fns=[S + "StackCoder::from_compressed"],
     text="for any last word w != 0: content = bits of w below its highest set bit (zero word refused)")
kani("bits::queue_roundtrip", ["C16", "C18"], fns=[S + "QueueEncoder::write_bit", S + "QueueEncoder::into_compressed", S + "QueueDecoder::read_bit", S + "QueueDecoder::maybe_exhausted"],
     text="export == LSB-first packing zero padded; decoder yields the bits in order, then padding zeros, then None")
kani("bits::stack_guard", ["C08"], fns=[S + "StackCoderGuard::new", S + "StackCoderGuard::drop"], text="guard view == export; after drop, write+export == uninspected twin")
kani("bits::queue_guard", ["C08"], fns=[S + "QueueEncoderGuard::new", S + "QueueEncoderGuard::drop"], text="guard view == export; after drop, write+export == uninspected twin")
kani("bits::exp_golomb_u8", ["C16"], tier="thorough", timeout=1200, fns=["symbol/exp_golomb.rs::ExpGolomb::{encode_symbol_prefix,encode_symbol_suffix,decode_symbol}"],
     text="for every u8 value incl. MAX: prefix bits == textbook codeword; queue and stack round trips return the value")
kani("bits::exp_golomb_u16", ["C16"], tier="thorough", timeout=3000, fns=["symbol/exp_golomb.rs::ExpGolomb<u16>"], text="same for every u16 value")
claim("C16", "Every bit-coder operation against the ghost bit sequence for all contents of <= 10 bits over u8 words (covers all "
      "representations: empty, partial, exactly full, second word); export against the packing spec; Exp-Golomb for every u8/u16 value (thorough).",
      "Kani bit-precise on the real code; word type u8 (the code is generic in Word: wider words rely on genericity / Verus unit); sequences longer than 10 bits by induction on the per-step contract",
      "function contracts against a ghost sequence (Kani)")
NOT_APPLICABLE.pop("C16", None)
