"""Kani runner: runs named harnesses of /verif/kani against the real crate at /repo,
parses results, extracts the verifier's counterexample and replays it natively."""
import json
import os
import re
import shutil
import time

from .common import (KANI_DIR, OFFLINE_ENV, REPO, REPLAYS, VERIF, Undecided, run, write_json)

REPLAY_DIR = os.path.join(VERIF, "replay")

# Kani's default float checks fire on inputs the properties allow (NaN arithmetic); not violations.
IGNORED_CHECKS = re.compile(r"NaN on (addition|subtraction|multiplication|division)|"
                            r"arithmetic overflow on floating-point")
UNDECIDED_CHECKS = re.compile(r"unwinding assertion|recursion unwinding")
TAG = re.compile(r"^\"?((?:C\d\d)(?:/C\d\d)*)\b")


def _env(extra=None):
    env = dict(OFFLINE_ENV)
    flags = env.get("RUSTFLAGS", "")
    if "constriction_verif" not in flags:
        env["RUSTFLAGS"] = (flags + " --cfg constriction_verif").strip()
    if extra:
        env.update(extra)
    return env


def sync_lockfile():
    src = os.path.join(REPO, "Cargo.lock")
    for d in (KANI_DIR, REPLAY_DIR):
        dst = os.path.join(d, "Cargo.lock")
        if os.path.isdir(d) and not os.path.exists(dst) and os.path.exists(src):
            shutil.copy(src, dst)


def parse_terse(out):
    """-> {harness: {'status','total','failed','unreachable','undetermined','covers':(sat,total),
                     'failed_checks':[{'desc','file','line','fn'}], 'time'}}"""
    res = {}
    cur = {}
    block_of = None
    blocks = {}
    for line in out.splitlines():
        m = re.match(r"^(?:Thread (\d+): )?Checking harness (\S+?)\.\.\.$", line)
        if m:
            t = m.group(1) or "0"
            cur[t] = m.group(2)
            block_of = m.group(2) if m.group(1) is None else None
            if block_of:
                blocks.setdefault(block_of, [])
            continue
        m = re.match(r"^Thread (\d+): ?$", line)
        if m:
            block_of = cur.get(m.group(1))
            blocks.setdefault(block_of, [])
            continue
        if line.startswith("Manual Harness Summary") or line.startswith("Thread "):
            block_of = None
            continue
        if block_of is not None:
            blocks[block_of].append(line)
    for h, lines in blocks.items():
        r = dict(status="error", total=0, failed=0, unreachable=0, undetermined=0, covers=(0, 0),
                 failed_checks=[], time=0.0, raw="\n".join(lines))
        txt = r["raw"]
        m = re.search(r"\*\* (\d+) of (\d+) failed(?: \(([^)]*)\))?", txt)
        if m:
            r["failed"], r["total"] = int(m.group(1)), int(m.group(2))
            for part in (m.group(3) or "").split(","):
                mm = re.match(r"\s*(\d+) (\w+)", part)
                if mm and mm.group(2) in ("unreachable", "undetermined"):
                    r[mm.group(2)] = int(mm.group(1))
        m = re.search(r"\*\* (\d+) of (\d+) cover properties satisfied", txt)
        if m:
            r["covers"] = (int(m.group(1)), int(m.group(2)))
        for m in re.finditer(r"Failed Checks: (.*)\n File: \"([^\"]*)\", line (\d+), in (\S+)", txt):
            r["failed_checks"].append(dict(desc=m.group(1).strip(), file=m.group(2),
                                           line=int(m.group(3)), fn=m.group(4)))
        # failed checks without location
        for m in re.finditer(r"Failed Checks: (.*)\n(?! File:)", txt):
            r["failed_checks"].append(dict(desc=m.group(1).strip(), file="", line=0, fn=""))
        m = re.search(r"Verification Time: ([\d.]+)s", txt)
        if m:
            r["time"] = float(m.group(1))
        if "VERIFICATION:- SUCCESSFUL" in txt:
            r["status"] = "success"
        elif "timed out" in txt:
            r["status"] = "timeout"
        elif "VERIFICATION:- FAILED" in txt:
            r["status"] = "failed" if r["failed_checks"] or r["failed"] else "error"
        res[h] = r
    return res


def run_harnesses(harnesses, timeout_s=600, jobs=8, extra_args=()):
    """Run the given fully-qualified harness names in one cargo-kani invocation."""
    sync_lockfile()
    if not harnesses:
        return {}, dict(cmd="", wall=0.0, solver_s=0.0)
    jsonp = os.path.join(KANI_DIR, "target", f"export-{os.getpid()}.json")
    os.makedirs(os.path.dirname(jsonp), exist_ok=True)
    cmd = ["cargo", "kani", "-Z", "unstable-options", "--exact", "-j", str(max(2, min(jobs, len(harnesses)))),
           "--output-format", "terse", "--harness-timeout", f"{int(timeout_s)}s", "--export-json", jsonp]
    cmd += list(extra_args)
    for h in harnesses:
        cmd += ["--harness", h]
    hard = timeout_s * (1 + len(harnesses) // max(1, jobs)) + 900
    rc, out, err, wall = run(cmd, cwd=KANI_DIR, timeout=hard, env=_env(), limit_mem=True)
    if "Manual Harness Summary" not in out and "Complete -" not in out:
        tail = (out + "\n" + err)[-3000:]
        raise Undecided("cargo kani did not reach verification (build error or crash):\n" + tail)
    res = parse_terse(out)
    solver_s = 0.0
    try:
        d = json.load(open(jsonp))
        for c in d.get("cbmc", []):
            st = c.get("cbmc_stats") or {}
            h = c.get("harness_id")
            if h in res:
                res[h]["solver_s"] = st.get("runtime_decision_procedure_s") or 0.0
                res[h]["symex_s"] = st.get("runtime_symex_s") or 0.0
                solver_s += st.get("runtime_decision_procedure_s") or 0.0
        for e in d.get("error_details", []):
            h = e.get("harness_id")
            if h in res and e.get("exit_status") == "timeout":
                res[h]["status"] = "timeout"
        os.remove(jsonp)
    except (OSError, ValueError):
        pass
    for h in harnesses:
        if h not in res:
            res[h] = dict(status="missing", total=0, failed=0, unreachable=0, undetermined=0,
                          covers=(0, 0), failed_checks=[], time=0.0, raw="harness not found in Kani output")
    shown = " ".join(cmd[:12]) + f" --harness <{len(harnesses)} harnesses>"
    return res, dict(cmd=shown, wall=wall, solver_s=solver_s)


def classify(result, prop, allow=(), loop_contract=None):
    """-> (violations, undecided, ignored) lists of failed checks for property `prop`.
    A tagged harness assertion ("C06: ...") counts only for the properties named in its tag;
    untagged failures (overflow, bounds, unwrap panics, unsafe preconditions) count for the
    property that owns the harness."""
    viol, und, ign = [], [], []
    for fc in result["failed_checks"]:
        d = fc["desc"]
        if IGNORED_CHECKS.search(d) or any(re.search(a, d) for a in allow):
            ign.append(fc)
        elif UNDECIDED_CHECKS.search(d):
            # termination contract (registry: loop_contract): a loop of the code under contract that exceeds the
            # stated bound is a violation of the named properties; everywhere else an unwinding failure is undecided
            if loop_contract and prop in loop_contract[0] and "/src/" in fc.get("file", "") and "/verif/" not in fc.get("file", ""):
                viol.append(dict(fc, desc=f"loop exceeds the termination contract ({loop_contract[1]}): {d}"))
            else:
                und.append(fc)
        else:
            m = TAG.match(d)
            if m and prop not in m.group(1).split("/"):
                ign.append(fc)
            else:
                viol.append(fc)
    return viol, und, ign


def playback(harness, want_desc=None, timeout_s=900):
    """Re-run one failing harness with concrete playback; return list of byte vectors of the
    counterexample for the failed check matching `want_desc` (or the first one)."""
    cmd = ["cargo", "kani", "-Z", "concrete-playback", "--concrete-playback=print", "-Z", "unstable-options",
           "--harness", harness, "--exact", "--output-format", "terse", "--harness-timeout", f"{int(timeout_s)}s"]
    rc, out, err, wall = run(cmd, cwd=KANI_DIR, timeout=timeout_s + 600, env=_env())
    tests = []
    for m in re.finditer(r"Check for `[^`]*`: (.*?)\n#\[test\]\nfn (\w+)\(\) \{\n\s*let concrete_vals: Vec<Vec<u8>> = vec!\[(.*?)\n\s*\];",
                         out, re.S):
        desc, body = m.group(1).strip(), m.group(3)
        vals = [[int(x) for x in v.split(",") if x.strip()] for v in re.findall(r"vec!\[([^\]]*)\]", body)]
        tests.append((desc, vals))
    if not tests:
        return None, out[-2000:]
    if want_desc:
        for desc, vals in tests:
            if want_desc.strip('"') in desc:
                return vals, desc
    return tests[0][1], tests[0][0]


def native_replay(harness, inputs, timeout_s=600):
    """Run the same harness body natively (plain rustc, debug build, real crate) on `inputs`."""
    sync_lockfile()
    path = "vkani::" + harness
    main = f"""// generated by vk/kani.py for replay; do not edit
fn main() {{
    let a: Vec<String> = std::env::args().collect();
    let txt = std::fs::read_to_string(&a[1]).expect("replay file");
    let inputs: Vec<Vec<u8>> = txt.lines().filter(|l| !l.trim().is_empty())
        .map(|l| l.split(',').filter(|s| !s.trim().is_empty()).map(|s| s.trim().parse().unwrap()).collect()).collect();
    vkani::kx::set_replay_inputs(inputs);
    let r = std::panic::catch_unwind(|| {{ {path}(); }});
    match r {{
        Ok(()) => println!("REPLAY-RESULT: not-reproduced (harness body ran to completion)"),
        Err(e) => {{
            if e.downcast_ref::<vkani::kx::AssumptionViolated>().is_some() {{
                println!("REPLAY-RESULT: assumption-violated (inputs do not satisfy the harness precondition)");
            }} else {{
                let msg = e.downcast_ref::<String>().cloned().or_else(|| e.downcast_ref::<&str>().map(|s| s.to_string())).unwrap_or_default();
                println!("REPLAY-RESULT: reproduced panic: {{}}", msg);
            }}
        }}
    }}
}}
"""
    os.makedirs(os.path.join(REPLAY_DIR, "src"), exist_ok=True)
    mp = os.path.join(REPLAY_DIR, "src", "main.rs")
    if not os.path.exists(mp) or open(mp).read() != main:
        open(mp, "w").write(main)
    inp = os.path.join(REPLAY_DIR, "target", f"inputs-{os.getpid()}.txt")
    os.makedirs(os.path.dirname(inp), exist_ok=True)
    open(inp, "w").write("\n".join(",".join(str(b) for b in v) for v in inputs) + "\n")
    run(["cargo", "build", "--quiet"], cwd=REPLAY_DIR, timeout=timeout_s, env=_env())
    rc, out, err, wall = run(["cargo", "run", "--quiet", "--", inp], cwd=REPLAY_DIR, timeout=min(timeout_s, 180), env=_env())
    m = re.search(r"REPLAY-RESULT: (.*)", out)
    if m:
        verdict = m.group(1)
    elif rc == -9:
        verdict = f"reproduced hang: the native run of the harness body on these inputs did not return within {min(timeout_s, 180)} s (killed)"
    elif rc not in (0, 101):
        why = [l for l in err.splitlines() if "unsafe precondition" in l or "panicked at" in l or "non-unwinding" in l]
        verdict = f"reproduced abort (rc={rc}): " + " | ".join(why[-3:])[:400]
    else:
        verdict = f"no verdict (rc={rc})"
    return dict(verdict=verdict, rc=rc, stdout=out[-1500:], stderr=err[-3000:])
