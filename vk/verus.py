"""Verus runner: extracts the real function bodies from /repo/src on every run, specialises
them with the fixed rule table (DESIGN §3), splices them under hand-written contracts and
runs `verus` on the generated single file.  Also runs the hand-written lemma files."""
import json
import os
import re

from .common import GEN, REPO, VERIF, Undecided, run, sha16

VERUS_DIR = os.path.join(VERIF, "verus")

WIDTHS = {
    # name: (Word, State, word bits, state bits)
    "u8_u16": ("u8", "u16", 8, 16),
    "u8_u32": ("u8", "u32", 8, 32),
    "u8_u64": ("u8", "u64", 8, 64),
    "u16_u32": ("u16", "u32", 16, 32),
    "u16_u64": ("u16", "u64", 16, 64),
    "u32_u64": ("u32", "u64", 32, 64),
}


# ---------------------------------------------------------------- extraction

def strip_comments(s):
    s = re.sub(r"//[^\n]*", "", s)
    return re.sub(r"/\*.*?\*/", "", s, flags=re.S)


def fn_text(src, impl_anchor, fn_name, nth=0):
    """Return the body text (between the outermost braces) of `fn fn_name` that follows
    `impl_anchor` in `src`.  Lost anchor => Undecided (exit 2), never a violation."""
    i = src.find(impl_anchor)
    if i < 0:
        raise Undecided(f"anchor lost: {impl_anchor!r}")
    pat = re.compile(r"\bfn\s+" + re.escape(fn_name) + r"\b")
    m = None
    pos = i
    for _ in range(nth + 1):
        m = pat.search(src, pos)
        if not m:
            raise Undecided(f"function lost: {fn_name} after {impl_anchor!r}")
        pos = m.end()
    k = m.start()
    depth = 0
    n = len(src)
    while k < n:
        ch = src[k]
        if ch in "(<[":
            depth += 1
        elif ch in ")>]":
            if not (ch == ">" and src[k - 1] in "-="):
                depth -= 1
        elif ch == "{" and depth == 0:
            break
        elif ch == ";" and depth == 0:
            raise Undecided(f"function {fn_name} has no body")
        k += 1
    start = k
    d = 0
    while k < n:
        if src[k] == "{":
            d += 1
        elif src[k] == "}":
            d -= 1
            if d == 0:
                break
        k += 1
    if k >= n:
        raise Undecided(f"unbalanced braces in {fn_name}")
    return src[start + 1:k], src[m.start():start]


def strip_static_asserts(b):
    out = ""
    i = 0
    texts = []
    while True:
        j = b.find("generic_static_asserts!(", i)
        if j < 0:
            return out + b[i:], texts
        out += b[i:j]
        k = j + len("generic_static_asserts!")
        d = 0
        while True:
            if b[k] == "(":
                d += 1
            elif b[k] == ")":
                d -= 1
                if d == 0:
                    break
            k += 1
        texts.append(b[j:k + 1])
        i = b.index(";", k) + 1


# R2-R7, R10, R11 of DESIGN §3 (regex, replacement).  Applied in order to every extracted body.
COMMON_RULES = [
    ("R2", r"\bself\b", "slf"),
    ("R3", r"\bState::BITS\b", "STATE_BITS"), ("R3", r"\bWord::BITS\b", "WORD_BITS"),
    ("R3", r"\bProbability::BITS\b", "PROB_BITS"),
    ("R3", r"\bState::one\(\)", "(1 as State)"), ("R3", r"\bState::zero\(\)", "(0 as State)"),
    ("R3", r"\bWord::one\(\)", "(1 as Word)"), ("R3", r"\bWord::zero\(\)", "(0 as Word)"),
    ("R3", r"\bProbability::one\(\)", "(1 as Probability)"), ("R3", r"\bProbability::zero\(\)", "(0 as Probability)"),
    ("R3", r"\bWord::max_value\(\)", "Word::MAX"), ("R3", r"\bState::max_value\(\)", "State::MAX"),
    ("R3", r"\bProbability::max_value\(\)", "Probability::MAX"),
    ("R4", r"\.wrapping_add\(&", ".wrapping_add("), ("R4", r"\.wrapping_sub\(&", ".wrapping_sub("),
    ("R5", r"\.into_nonzero_unchecked\(\)", ".nz_unchecked()"),
    ("R5", r"\.into_nonzero\(\)", ".nz()"),
    ("R5", r"NonZeroUsize::new\(", "nzusize_new("),
    ("R5", r"\.get\(\)", ""),
    ("R5", r"\bunsafe\s*\{", "{"),
    ("R6", r"\.into\(\)\.into\(\)", ".p2s()"),
    ("R6", r"\.as_\(\)\.as_\(\)", ".s2p()"),
    ("R10", r"\bfor _ in\b", "for _i in"),
    ("R10", r"\bdebug_assert!\(", "assert("),
    ("R10", r"core::mem::drop\(([^;]*)\);", r"let _ = \1;"),
    ("R11", r"\.get_unchecked\(([^()]*(?:\([^()]*\))?[^()]*)\)", r"[\1]"),
    ("R0", r"\n\s*\n(\s*\n)+", "\n\n"),
]


def specialise(body, extra):
    """extra: list of (regex, replacement, expected_count|None).  Returns text, fire counts."""
    b = strip_comments(body)
    b, asserts = strip_static_asserts(b)
    fired = {}
    if asserts:
        fired["R1"] = len(asserts)
    # per-unit rules first (they are written against the original text with `self`)
    for pat, rep, expect in extra:
        b, n = re.subn(pat, rep, b, flags=re.S)
        fired["X:" + pat[:40]] = n
        if expect is not None and n != expect:
            raise Undecided(f"extraction rule /{pat}/ fired {n} times, expected {expect}")
    for rid, pat, rep in COMMON_RULES:
        b, n = re.subn(pat, rep, b)
        if n and rid != "R0":
            fired[rid] = fired.get(rid, 0) + n
    return b, fired, asserts


def expand_includes(text):
    def inc(m):
        return open(os.path.join(VERUS_DIR, m.group(1))).read()
    return re.sub(r"//@INCLUDE (\S+)", inc, text)


def build_unit(unit, width):
    """Generate .gen/<unit>_<width>.rs from the template and today's /repo sources."""
    W, S, wb, sb = WIDTHS[width] if width else (None, None, None, None)
    tmpl = expand_includes(open(os.path.join(VERUS_DIR, unit["template"])).read())
    report = []
    for slot, spec in unit["slots"].items():
        srcp = os.path.join(REPO, spec["file"])
        try:
            src = open(srcp).read()
        except OSError:
            raise Undecided(f"source file lost: {spec['file']}")
        body, header = fn_text(src, spec["anchor"], spec["fn"], spec.get("nth", 0))
        text, fired, asserts = specialise(body, spec.get("extra", []))
        marker = "//@EXTRACT " + slot
        if marker not in tmpl:
            raise Undecided(f"template slot missing: {slot}")
        tmpl = tmpl.replace(marker, text)
        report.append(dict(slot=slot, fn=f"{spec['file']}::{spec['fn']}", sha256=sha16(body),
                           bytes_before=len(body), bytes_after=len(text), rules_fired=fired,
                           static_asserts=[re.sub(r"\s+", " ", a) for a in asserts]))
    if width:
        prob = unit.get("prob", {}).get(width, W)
        pb = int(prob[1:])
        for k, v in {"@WORD@": W, "@STATE@": S, "@WORD_BITS@": str(wb), "@STATE_BITS@": str(sb),
                     "@PROB@": prob, "@PROB_BITS@": str(pb),
                     "@WORD_MAX@": hex((1 << wb) - 1), "@STATE_MAX@": hex((1 << sb) - 1),
                     "@POW_STATE_BITS@": hex(1 << sb), "@POW_WORD_BITS@": hex(1 << wb),
                     "@SBWB@": str(sb - wb), "@TH@": hex(1 << (sb - wb)),
                     "@PROB_MAX@": hex((1 << pb) - 1), "@POW_PROB_BITS@": hex(1 << pb)}.items():
            tmpl = tmpl.replace(k, v)
    name = unit["name"] + ("_" + width if width else "")
    path = os.path.join(GEN, name + ".rs")
    with open(path, "w") as f:
        f.write("// GENERATED on every run by vk/verus.py from " + unit["template"] + " and /repo/src; do not edit\n")
        f.write(tmpl)
    return path, report


# ---------------------------------------------------------------- running

ERR_KINDS_VIOLATION = re.compile(
    r"postcondition not satisfied|precondition not satisfied|assertion failed|"
    r"possible arithmetic underflow/overflow|possible division by zero|invariant not satisfied|"
    r"possible bit shift underflow/overflow|index out of bounds|unreachable|possible truncation|"
    r"decreases not satisfied|failed to terminate|recommendation not met", re.I)


def run_verus(path, timeout_s=600, rlimit=None):
    cmd = ["verus", path, "--output-json", "--time", "--num-threads", "8"]
    if rlimit:
        cmd += ["--rlimit", str(rlimit)]
    rc, out, err, wall = run(cmd, cwd=os.path.dirname(path), timeout=timeout_s)
    if rc == -9:
        raise Undecided(f"verus timed out on {os.path.basename(path)}")
    try:
        d = json.loads(out)
    except ValueError:
        raise Undecided(f"verus produced no JSON for {os.path.basename(path)}:\n{err[-2000:]}")
    vr = d.get("verification-results", {})
    funcs = {}
    smt_ms = 0
    try:
        for mod in d["times-ms"]["smt"]["smt-run-module-times"]:
            for f in mod.get("function-breakdown", []):
                nm = f["function"].split("::")[-1]
                prev = funcs.get(nm)
                ok = f["success"] and (prev["success"] if prev else True)
                funcs[nm] = dict(success=ok, time_ms=f["time"] + (prev["time_ms"] if prev else 0),
                                 rlimit=f["rlimit"], mode=f.get("mode:", ""))
        smt_ms = d["times-ms"]["smt"]["total"]
    except (KeyError, TypeError):
        pass
    errors = []
    for m in re.finditer(r"^error(?:\[[A-Z0-9]+\])?: (.*?)\n\s+--> ([^:\n]+):(\d+):(\d+)", err, re.M):
        errors.append(dict(msg=m.group(1).strip(), line=int(m.group(3))))
    hard = [e for e in errors if not ERR_KINDS_VIOLATION.search(e["msg"])
            and not e["msg"].startswith("aborting due to")]
    rlimited = "Resource limit (rlimit) exceeded" in err or "rlimit" in " ".join(e["msg"] for e in errors)
    if vr.get("encountered-vir-error") or (not funcs and not vr.get("success")):
        raise Undecided(f"verus could not process {os.path.basename(path)} (unsupported construct / type error):\n{err[-2500:]}")
    if hard and not vr.get("success"):
        # compile-level errors other than proof failures
        nonproof = [e for e in hard if "rlimit" not in e["msg"].lower()]
        if nonproof and not any(not f["success"] for f in funcs.values()):
            raise Undecided(f"verus error in {os.path.basename(path)}: {nonproof[0]['msg']}\n{err[-2500:]}")
    return dict(path=path, verified=vr.get("verified", 0), errors=vr.get("errors", 0), success=vr.get("success", False),
                funcs=funcs, smt_s=smt_ms / 1000.0, wall=wall, messages=errors, rlimited=rlimited,
                stderr=err[-6000:], cmd=" ".join(cmd))


def fn_spans(path):
    """[(start_line, name)] of `fn name` items in a generated file (for mapping messages)."""
    spans = []
    for i, line in enumerate(open(path).read().splitlines(), 1):
        m = re.search(r"\bfn\s+(\w+)", line)
        if m and not line.lstrip().startswith("//"):
            spans.append((i, m.group(1)))
    return spans


def fn_at(spans, line):
    name = None
    for start, n in spans:
        if start <= line:
            name = n
        else:
            break
    return name
