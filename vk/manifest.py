"""Regenerates /verif/MANIFEST.json from the registry (python3 -m vk.manifest)."""
import json
import os

from .common import VERIF, write_json
from .registry import KANI_UNITS, LEMMA_UNITS, PROPS, VERUS_UNITS, MANIFEST_META, NOT_APPLICABLE


def main():
    checks = []
    for pid in sorted(PROPS):
        m = MANIFEST_META.get(pid)
        if not m:
            continue
        checks.append(dict(
            property_id=pid,
            quick_cmd=f"./check {pid} --tier quick",
            thorough_cmd=f"./check {pid} --tier thorough",
            evidence_file=f"/verif/evidence/{pid}.json",
            replay_cmd_template=f"./check {pid} --replay {{path}}",
            engine="vk",
            level_claimed=dict(category=PROPS[pid]["level"], text=m["text"], design_ref=m.get("design_ref", "DESIGN.md §6 " + pid)),
            level_note=m["note"],
            technique=m["technique"],
        ))
    claimed = {c["property_id"] for c in checks}
    na = [dict(property_id=p, reason=r) for p, r in sorted(NOT_APPLICABLE.items()) if p not in claimed]
    man = dict(
        version=1,
        setup_cmd="./setup.sh",
        hooks=dict(guard="constriction_verif",
                   enable="RUSTFLAGS='--cfg constriction_verif' (set by vk/kani.py for the Kani and replay builds only)",
                   baseline_off_cmd="cd /repo && cargo nextest run --workspace --no-fail-fast --test-threads 8 --offline || cargo test --workspace --no-fail-fast --offline",
                   source_commits=MANIFEST_META.get("_hook_commits", []),
                   add_only=True),
        engines=[dict(name="vk", path="/verif/check",
                      serves_properties=sorted(claimed),
                      kind_free_text="contract-based deductive verification: Verus on function bodies extracted mechanically from /repo/src on every run (rule table, DESIGN §3) + width-parametric Verus lemmas + Kani function-level contracts (assume pre / call real fn / assert post over full symbolic inputs) on the real crate")],
        checks=checks,
        notes="Exit codes: 0 discharged, 1 VIOLATION (named failed obligation + replay file), 2 undecided (lost anchor, unsupported construct, timeout) - never an alarm. Bounded Kani stand-ins are listed per evidence file under coverage.bounded_stand_ins and are never counted under obligations/discharged.",
        not_applicable=na,
    )
    write_json(os.path.join(VERIF, "MANIFEST.json"), man)
    print("MANIFEST.json:", len(checks), "checks,", len(na), "not_applicable")


if __name__ == "__main__":
    main()
