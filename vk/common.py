"""Shared plumbing: paths, subprocess with timeout, evidence/replay writers, known findings."""
import hashlib
import json
import os
import re
import subprocess
import sys
import time

VERIF = os.path.dirname(os.path.dirname(os.path.abspath(__file__)))
REPO = os.environ.get("VERIF_REPO", "/repo")
GEN = os.path.join(VERIF, ".gen")          # generated Verus files (rebuilt every run)
EVID = os.path.join(VERIF, "evidence")
REPLAYS = os.path.join(VERIF, "replays")
KANI_DIR = os.path.join(VERIF, "kani")
KNOWN = os.path.join(VERIF, "known_findings.json")

for d in (GEN, EVID, REPLAYS):
    os.makedirs(d, exist_ok=True)

OFFLINE_ENV = dict(os.environ, CARGO_NET_OFFLINE="true")


class Undecided(Exception):
    """Infrastructure problem (lost anchor, unsupported construct, timeout): exit 2, never a violation."""


def _limit_memory():
    # per-process address-space cap (inherited by cbmc / z3 children): a runaway solver must end as
    # "undecided", not take the machine down (no swap here)
    import resource
    cap = int(os.environ.get("VERIF_MEM_GB", "24")) * (1 << 30)
    try:
        resource.setrlimit(resource.RLIMIT_AS, (cap, cap))
    except (ValueError, OSError):
        pass


def run(cmd, cwd=None, timeout=None, env=None, limit_mem=False):
    t0 = time.time()
    try:
        p = subprocess.run(cmd, cwd=cwd, env=env or OFFLINE_ENV, stdout=subprocess.PIPE,
                           stderr=subprocess.PIPE, timeout=timeout, text=True, errors="replace",
                           preexec_fn=_limit_memory if limit_mem else None)
        return p.returncode, p.stdout, p.stderr, time.time() - t0
    except subprocess.TimeoutExpired as e:
        out = e.stdout.decode(errors="replace") if isinstance(e.stdout, bytes) else (e.stdout or "")
        err = e.stderr.decode(errors="replace") if isinstance(e.stderr, bytes) else (e.stderr or "")
        return -9, out, err + "\n[timeout]", time.time() - t0


def sha16(s):
    return hashlib.sha256(s.encode()).hexdigest()[:16]


def repo_head():
    rc, out, _, _ = run(["git", "-C", REPO, "rev-parse", "--short", "HEAD"])
    rc2, st, _, _ = run(["git", "-C", REPO, "status", "--porcelain", "--", "src"])
    return out.strip() + ("+dirty" if st.strip() else "")


def load_known():
    try:
        return json.load(open(KNOWN))
    except FileNotFoundError:
        return {"findings": [], "fixed": []}


def write_json(path, obj):
    tmp = path + ".tmp"
    with open(tmp, "w") as f:
        json.dump(obj, f, indent=1, sort_keys=False)
        f.write("\n")
    os.replace(tmp, path)


def scan_assumptions(paths):
    """Mechanical scan of the machinery for unchecked assumptions (reported in evidence)."""
    pats = [r"\bassume\s*\(", r"\badmit\s*\(", r"external_body", r"assume_specification",
            r"kani::stub\b", r"external_fn_specification", r"#\[verifier::external\]"]
    found = []
    for p in paths:
        try:
            txt = open(p).read()
        except OSError:
            continue
        for pat in pats:
            n = len(re.findall(pat, txt))
            if n:
                found.append(f"{os.path.relpath(p, VERIF)}: {n}x /{pat}/")
    return found
