"""Per-property check driver: gathers the units registered for a property, runs them against
/repo's current working tree, decides, writes evidence and replay files."""
import concurrent.futures as cf
import json
import os
import re
import sys
import time

from . import kani as K
from . import verus as V
from .common import (EVID, GEN, KANI_DIR, REPLAYS, VERIF, Undecided, load_known, repo_head,
                     scan_assumptions, write_json)
from .registry import KANI_UNITS, LEMMA_UNITS, PROPS, VERUS_UNITS

TIERS = {"quick": 0, "thorough": 1}


def _known_match(known, prop, engine, unit, desc):
    for f in known.get("findings", []):
        if f["property"] == prop and f["engine"] == engine and f["unit"] == unit and f["check"] in desc:
            return f
    return None


def check_property(prop, tier="quick", seed=0, jobs=16):
    t0 = time.time()
    meta = PROPS[prop]
    known = load_known()
    violations = []      # dicts: engine, unit, obligation, desc, replay info
    known_hits = []
    undecided = []
    samples = []
    obligations = discharged = 0
    by_backend = {}
    fns_under_contract = []
    bounded = []
    lemmas_used = []
    dependent_notes = []
    vac = dict(reach_probes_failed_as_expected=0, covers_satisfied=0, covers_total=0)
    bounded_checks = bounded_passed = 0
    known_obl = 0   # failed obligations that ARE the listed known findings: reported separately, not as undischarged proof obligations
    checker_cmds = []

    # ---------------- Verus: lemma files and extracted units
    vjobs = []
    for lu in LEMMA_UNITS:
        if prop in lu["props"] and TIERS[lu.get("tier", "quick")] <= TIERS[tier]:
            vjobs.append(("lemma", lu, None))
    for vu in VERUS_UNITS:
        rel = [f for f, o in vu["obligations"].items() if prop in o.get("own", []) or prop in o.get("dep", [])]
        if not rel:
            continue
        widths = vu.get("widths", [None])
        if tier == "quick" and vu.get("quick_widths"):
            widths = vu["quick_widths"]
        for w in widths:
            vjobs.append(("unit", vu, w))

    def run_v(job):
        kind, u, w = job
        try:
            if kind == "lemma":
                path = os.path.join(GEN, os.path.basename(u["file"]))
                src = open(os.path.join(V.VERUS_DIR, u["file"])).read()
                open(path, "w").write(V.expand_includes(src))
                return job, V.run_verus(path, timeout_s=u.get("timeout", 600)), None, None
            path, report = V.build_unit(u, w)
            return job, V.run_verus(path, timeout_s=u.get("timeout", 600)), report, None
        except Undecided as e:
            return job, None, None, str(e)

    vres = []
    if vjobs:
        with cf.ThreadPoolExecutor(max_workers=min(6, len(vjobs))) as ex:
            vres = list(ex.map(run_v, vjobs))
    vb = by_backend.setdefault("verus-z3", dict(functions_verified=0, functions_failed=0, solver_s=0.0, files=0))
    for (kind, u, w), r, report, err in vres:
        uname = (u["name"] + ("_" + w if w else "")) if kind == "unit" else os.path.basename(u["file"])
        if err:
            undecided.append(f"verus {uname}: {err[:1500]}")
            continue
        vb["files"] += 1
        vb["solver_s"] += r["smt_s"]
        checker_cmds.append(r["cmd"])
        spans = V.fn_spans(r["path"])
        if kind == "lemma":
            lemmas_used.extend(sorted(n for n, f in r["funcs"].items() if f["mode"] == "proof" and not n.endswith("_reach")))
        if report:
            for rep in report:
                rep = dict(rep, engine=f"V:{w}")
                fns_under_contract.append(rep)
        oblig = u["obligations"] if kind == "unit" else {}
        for fname, f in sorted(r["funcs"].items()):
            if f["mode"] == "spec":
                continue
            if fname.endswith("_reach"):
                # vacuity probe: same requires, `ensures false` -- must FAIL
                if f["success"]:
                    undecided.append(f"vacuity: {uname}::{fname} verified `ensures false` (contradictory precondition)")
                else:
                    vac["reach_probes_failed_as_expected"] += 1
                continue
            if kind == "unit":
                o = oblig.get(fname)
                if o is None:
                    role = "support"
                elif prop in o.get("own", []):
                    role = "own"
                elif prop in o.get("dep", []):
                    role = "dep"
                else:
                    continue
            else:
                role = "own"
            obligations += 1
            if f["success"]:
                discharged += 1
                vb["functions_verified"] += 1
                if role == "own" and len(samples) < 6 and kind == "unit" and oblig.get(fname, {}).get("text"):
                    samples.append(f"{uname}::{fname}: {oblig[fname]['text']}")
                continue
            vb["functions_failed"] += 1
            msgs = [m for m in r["messages"] if V.fn_at(spans, m["line"]) == fname] or r["messages"]
            desc = "; ".join(sorted(set(m["msg"] for m in msgs)))[:400] or "verification failed"
            if r["rlimited"] and not any(V.ERR_KINDS_VIOLATION.search(m["msg"]) for m in msgs):
                undecided.append(f"verus {uname}::{fname}: resource limit")
                continue
            if role == "dep":
                # clause-level ownership: a failed postcondition clause marked `//#own Cxx ...` in the template is an
                # obligation of those properties even where the function as a whole is only a dependency
                try:
                    glines = open(r["path"]).read().splitlines()
                except OSError:
                    glines = []
                marked = [m for m in msgs if "postcondition" in m["msg"] and 0 < m["line"] <= len(glines)
                          and re.search(r"//#own\b[^\n]*\b" + prop + r"\b", glines[m["line"] - 1])]
                if marked:
                    role = "own"
                    desc = "postcondition clause owned by " + prop + " not satisfied: " + glines[marked[0]["line"] - 1].split("//#own")[0].strip()[:300]
            if role == "dep" or role == "support" and kind == "unit" and not _support_is_own(u, prop):
                dependent_notes.append(f"{uname}::{fname} failed ({desc}); lift of {prop} through this contract is not established on this tree (owner: {oblig.get(fname, {}).get('own', [])})")
                continue
            item = dict(engine="verus", unit=uname, obligation=fname, desc=desc, stderr=r["stderr"],
                        kani_twin=(oblig.get(fname, {}) or {}).get("kani_twin"))
            kf = _known_match(known, prop, "verus", uname, fname + ": " + desc)
            if kf:
                known_obl += 1
            (known_hits if kf else violations).append(dict(item, known=kf))

    # ---------------- Kani
    hs = [k for k in KANI_UNITS if prop in k["props"] and TIERS[k.get("tier", "quick")] <= TIERS[tier]]
    kres = {}
    if hs:
        tmo = max(max(k.get("timeout", 1800) for k in hs), 1800)
        try:
            res, info = K.run_harnesses([k["harness"] for k in hs], timeout_s=tmo, jobs=jobs)
            kres.update(res)
            checker_cmds.append(info["cmd"])
            kb = by_backend.setdefault("kani-cbmc", dict(harnesses=0, checks=0, unreachable=0, solver_s=0.0, wall_s=0.0))
            kb["solver_s"] += info["solver_s"]
            kb["wall_s"] += info["wall"]
        except Undecided as e:
            undecided.append("kani: " + str(e)[:3000])
    kb = by_backend.get("kani-cbmc")
    for k in hs:
        r = kres.get(k["harness"])
        if r is None:
            continue
        kb["harnesses"] += 1
        is_bounded = k.get("kind", "complete") == "bounded"
        if is_bounded:
            bounded.append(dict(harness=k["harness"], bound=k.get("bound", ""), status=r["status"], checks=r["total"]))
        for fn in k.get("fns", []):
            fns_under_contract.append(dict(fn=fn, engine=("Kb:" if is_bounded else "K:") + k["harness"]))
        viol, und, ign = K.classify(r, prop, k.get("allow", ()), k.get("loop_contract"))
        n_checks = r["total"]
        kb["checks"] += n_checks
        kb["unreachable"] += r["unreachable"]
        vac["covers_satisfied"] += r["covers"][0]
        vac["covers_total"] += r["covers"][1]
        if not is_bounded:
            obligations += n_checks
        if r["status"] == "failed" and not viol and not und:
            r["status"] = "success"   # only permitted clean failures / ignored float checks
        if r["status"] in ("timeout", "error", "missing"):
            undecided.append(f"kani {k['harness']}: {r['status']} {r.get('raw', '')[-300:]}")
            continue
        if r["covers"][0] != r["covers"][1] and not viol:
            undecided.append(f"kani {k['harness']}: vacuity guard: only {r['covers'][0]} of {r['covers'][1]} cover properties satisfied")
        if und and not viol:
            undecided.append(f"kani {k['harness']}: " + "; ".join(f["desc"] for f in und))
        if not is_bounded:
            discharged += n_checks - len(viol) - len(und) - r["undetermined"]
        else:
            bounded_checks += n_checks
            bounded_passed += n_checks - len(viol) - len(und) - r["undetermined"]
        if len(samples) < 10 and k.get("text"):
            samples.append(f"{k['harness']}: {k['text']}")
        for fc in viol:
            item = dict(engine="kani", unit=k["harness"], obligation=fc["desc"], desc=fc["desc"],
                        location=f"{fc['file']}:{fc['line']} in {fc['fn']}", bounded=is_bounded)
            kf = _known_match(known, prop, "kani", k["harness"], fc["desc"])
            if kf and not is_bounded:
                known_obl += 1
            (known_hits if kf else violations).append(dict(item, known=kf))

    # ---------------- replay files for violations (files of earlier runs of this property are dropped:
    # the directory always describes the latest run; known findings keep theirs under findings/)
    import glob
    for old in glob.glob(os.path.join(REPLAYS, f"{prop}-*.json")):
        os.remove(old)
    out_lines = []
    seen_units = set()
    for v in violations:
        key = (v["engine"], v["unit"])
        rp = os.path.join(REPLAYS, f"{prop}-{v['engine']}-{v['unit'].replace('::', '.')}.json")
        v["replay"] = rp
        if key in seen_units:
            continue
        seen_units.add(key)
        rec = dict(property=prop, engine=v["engine"], unit=v["unit"], failed_obligation=v["obligation"],
                   description=v["desc"], repo=repo_head(), tier=tier)
        suffix = ""
        if v["engine"] == "kani":
            rec["location"] = v.get("location")
            vals, which = K.playback(v["unit"], v["desc"])
            if vals is not None:
                rec["counterexample_inputs"] = vals
                rec["counterexample_for_check"] = which
                rec["native_replay"] = K.native_replay(v["unit"], vals)
            else:
                rec["verifier_output"] = which
                suffix = " no-failing-input-found"
        else:
            rec["verifier_output"] = v["stderr"]
            twin = v.get("kani_twin")
            got = False
            if twin:
                try:
                    res, _ = K.run_harnesses([twin], timeout_s=600, jobs=2)
                    tr = res.get(twin)
                    tv, _, _ = K.classify(tr, prop) if tr else ([], [], [])
                    if tv:
                        vals, which = K.playback(twin, tv[0]["desc"])
                        if vals is not None:
                            rec["kani_twin"] = twin
                            rec["counterexample_inputs"] = vals
                            rec["counterexample_for_check"] = which
                            rec["native_replay"] = K.native_replay(twin, vals)
                            got = True
                except Undecided as e:
                    rec["kani_twin_error"] = str(e)[:500]
            if not got:
                suffix = " no-failing-input-found"
        write_json(rp, rec)
        out_lines.append(f"VIOLATION property={prop} replay={rp}{suffix}")

    for kh in known_hits:
        out_lines.append(f"KNOWN-FINDING: property={prop} {kh['known']['what']}")

    wall = time.time() - t0
    level = meta.get("level", "proof")
    tb = list(meta.get("trusted_base", []))
    assumptions = list(meta.get("assumptions", []))
    scan_paths = [os.path.join(KANI_DIR, "src", f) for f in os.listdir(os.path.join(KANI_DIR, "src"))]
    scan_paths += [os.path.join(V.VERUS_DIR, f) for f in os.listdir(V.VERUS_DIR)]
    assumptions += [
        "kx::assume(..) in Kani harnesses are the contracts' preconditions (documented data-structure invariants, well-formed model entries, bounds of bounded stand-ins); each harness carries kani::cover! guards that must be SATISFIED, so a contradictory precondition is reported (exit 2), not passed",
        "external_body in Verus templates: the ghost decoder model's quantile_function (the model contract of C03, proved for the library's models by the uniform/contiguous/lookup units and the Kani model harnesses) and the partition_point stubs (std's documented binary_search_by contract)",
        "Verus verifies the extracted function text after the rule table (generics specialised to concrete integer types, NonZero erased with its obligations kept, error plumbing simplified); Kani verifies what rustc compiles",
        "machine arithmetic is not treated as mathematical: Verus checks overflow on executable code, Kani is bit-precise; the lemma layer is over nat/int and connected by machine-checked bridging theorems",
    ]
    assumptions += ["scan: " + s for s in scan_assumptions(scan_paths)]
    ev = dict(
        property_id=prop, tier=tier, seed=seed, level=level, wall_s=round(wall, 2),
        violations=len(violations),
        coverage=dict(
            # obligations that are the listed known findings (genuine, recorded defects) are not part of the proof claim:
            # they are counted apart, and the claim is for the remaining obligations
            obligations=obligations - known_obl, discharged=discharged,
            obligations_failing_as_listed_known_findings=known_obl,
            checker_cmd=" ; ".join(dict.fromkeys(checker_cmds))[:4000] or "none",
            trusted_base=tb,
            by_backend=by_backend,
            functions_under_contract=fns_under_contract,
            lemmas=sorted(set(lemmas_used)),
            bounded_stand_ins=bounded,
            vacuity=vac,
            lift_notes=dependent_notes,
            undecided=undecided,
            known_findings_hit=[kh["known"]["what"] for kh in known_hits],
            violations=[dict(engine=v["engine"], unit=v["unit"], obligation=v["obligation"], replay=v.get("replay")) for v in violations],
            samples=samples or [f"{prop}: no obligation text recorded"],
            explanation=meta.get("explanation", ""),
            repo=repo_head(),
            # generic fallback keys (measured): evaluations = obligations generated, distinct = discharged
            evaluations=max(obligations - known_obl + bounded_checks, 1), distinct_nontrivial=max(discharged + bounded_passed, 0),
            bounded_checks=bounded_checks, bounded_checks_passed=bounded_passed,
            rule="one case = one proof obligation generated from today's source (a Verus function or a CBMC check, each at a distinct source location / contract clause); "
                 "non-trivial = discharged and not an expected-fail vacuity probe; checks of bounded stand-ins are counted here but never under obligations/discharged",
        ),
        assumptions=assumptions,
    )
    write_json(os.path.join(EVID, f"{prop}.json"), ev)
    for l in out_lines:
        print(l)
    if violations:
        return 1
    if undecided:
        for u in undecided:
            print("UNDECIDED:", u[:2000], file=sys.stderr)
        return 2
    print(f"OK property={prop} tier={tier} obligations={obligations - known_obl} discharged={discharged} known_findings={known_obl} wall={wall:.1f}s")
    return 0


def _support_is_own(u, prop):
    return prop in u.get("support_own", [])
