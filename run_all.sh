#!/bin/sh
# developer convenience: run claimed checks once (not registered anywhere):  ./run_all.sh [quick|thorough] [Cxx ...]
tier=${1:-quick}; [ $# -gt 0 ] && shift
props="$*"
[ -z "$props" ] && props=$(python3 -c "import json;print(' '.join(c['property_id'] for c in json.load(open('MANIFEST.json'))['checks']))")
mkdir -p /tmp/scratch
for p in $props; do
  s=$(date +%s)
  ./check $p --tier $tier > /tmp/scratch/check_${tier}_$p.log 2>&1
  rc=$?
  e=$(date +%s)
  echo "$p rc=$rc $((e-s))s $(grep -c VIOLATION /tmp/scratch/check_${tier}_$p.log) violations"
done
