#!/bin/sh
# developer convenience: run every claimed check once (not registered anywhere)
tier=${1:-quick}
for p in $(python3 -c "import json;print(' '.join(c['property_id'] for c in json.load(open('MANIFEST.json'))['checks']))"); do
  s=$(date +%s)
  ./check $p --tier $tier > /tmp/scratch/check_$p.log 2>&1
  rc=$?
  e=$(date +%s)
  echo "$p rc=$rc $((e-s))s $(grep -c VIOLATION /tmp/scratch/check_$p.log) violations"
done
