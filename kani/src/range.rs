//! Range coder (src/stream/queue.rs): contracts on the real code.
//! C02 (round trip), C06 (encoder/decoder steps == published interval arithmetic), C07 (pos/seek),
//! C08 (seal/unseal guard), C09 (impossible symbol), C10 (decode totality), C11 (seal + suffix),
//! C12 (per-call counts, range potential), C18 (num_words, maybe_exhausted).
use crate::cover;
use crate::kx::*;
use crate::stubs::*;
use constriction::backends::{Cursor, ReadWords};
use constriction::stream::queue::*;
use constriction::stream::{Decode, Encode};
use constriction::{CoderError, DefaultEncoderFrontendError, Pos, Queue, Seek};
use core::num::NonZeroUsize;

impl<W: Copy, const N: usize> AsRef<[W]> for ArrQueue<W, N> {
    fn as_ref(&self) -> &[W] { &self.buf[..self.n] }
}

macro_rules! range_harnesses {
    ($modname:ident, $W:ty, $S:ty, $Pr:ty, $P:expr, $solver:ident) => {
        pub mod $modname {
            use super::*;
            type W = $W; type S = $S; type Pr = $Pr;
            const P: usize = $P;
            const WB: u32 = <$W>::BITS; const SB: u32 = <$S>::BITS;
            const NW: usize = (SB / WB) as usize;
            type Sink = ArrQueue<W, 8>;
            type Enc = RangeEncoder<W, S, Sink>;
            type Dec = RangeDecoder<W, S, Sink>;
            pub const MAX_INV: usize = 3;

            /// any encoder state satisfying the representation invariant of Appendix A.4:
            /// range >= 2^(sb-wb); Normal => lower+range < 2^sb (no wrap);
            /// Inverted(n, first) => n >= 1, lower+range >= 2^sb, first < Word::MAX.
            pub fn any_enc_state(max_inv: usize) -> (RangeCoderState<W, S>, EncoderSituation<W>) {
                let lower: S = any(); let range: S = any();
                let st = match RangeCoderState::<W, S>::new(lower, range) { Ok(s) => s, Err(_) => { assume(false); unreachable!() } };
                let inverted: bool = any();
                let wraps = lower.checked_add(range).is_none();
                let sit = if inverted {
                    let n: usize = any(); let first: W = any();
                    assume(n >= 1 && n <= max_inv && wraps && first < W::MAX);
                    EncoderSituation::Inverted(NonZeroUsize::new(n).unwrap(), first)
                } else { assume(!wraps); EncoderSituation::Normal };
                (st, sit)
            }
            /// abstraction function: L = value(bulk ++ [first, ff..]) * 2^sb + lower, n = |bulk| + n_inv
            pub fn abs_l(bulk: &[W], sit: &EncoderSituation<W>, lower: S) -> (u128, usize) {
                let mut v: u128 = 0; let mut i = 0; while i < bulk.len() { v = (v << WB) | bulk[i] as u128; i += 1; }
                let mut n = bulk.len();
                if let EncoderSituation::Inverted(ninv, first) = sit {
                    v = (v << WB) | (*first as u128);
                    let mut j = 1; while j < ninv.get() { v = (v << WB) | (W::MAX as u128); j += 1; }
                    n += ninv.get();
                }
                ((v << SB) + lower as u128, n)
            }
            fn inv_ok(st: &RangeCoderState<W, S>, sit: &EncoderSituation<W>) -> bool {
                let wraps = st.lower().checked_add(st.range().get()).is_none();
                (st.range().get() >> (SB - WB)) != 0 && match sit {
                    EncoderSituation::Normal => !wraps,
                    EncoderSituation::Inverted(n, f) => wraps && *f < W::MAX && n.get() >= 1,
                }
            }

            /// C06 (+ chain link of C02): the real encode_symbol refines the published interval step
            ///   scale = R >> P; L += scale*cum; R = scale*p; if R < 2^(sb-wb) { L,R <<= wb; n += 1 }
            /// under the abstraction function, for ANY held-back situation (n_inv <= 3), and
            /// re-establishes the representation invariant.
            #[cfg_attr(kani, kani::proof)]
            #[cfg_attr(kani, kani::unwind(10))]
            #[cfg_attr(kani, kani::solver($solver))]
            pub fn enc_step_refines() {
                let (st, sit) = any_enc_state(MAX_INV);
                let (l0, n0) = abs_l(&[], &sit, st.lower());
                let e = any_entry::<Pr, P>(false);
                let mut enc = Enc::from_raw_parts(Sink::default(), st, sit);
                if enc.encode_symbol(e.sym, e).is_err() { assert!(false, "C06: range encode of an in-support symbol failed"); return; }
                let (sink, st1, sit1) = enc.into_raw_parts();
                let (l1, n1) = abs_l(sink.live(), &sit1, st1.lower());
                let scale = (st.range().get() as u128) >> P;
                let mut la = l0 + scale * e.cum as u128; let mut ra = scale * e.prob.get() as u128; let mut na = n0;
                let renorm = ra < (1u128 << (SB - WB));
                if renorm { la <<= WB; ra <<= WB; na += 1; }
                // format-independent requirement of any decodable range coder (lemma_nested): the new interval lies
                // inside the old one (compared at the new resolution); violated e.g. when held-back words are lost
                let r0 = st.range().get() as u128; let r1 = st1.range().get() as u128;
                assert!(n1 >= n0 && n1 <= n0 + 1, "C02/C11/C12/C06: a step must emit or hold back zero or one further word");
                if n1 >= n0 && n1 <= n0 + 1 {
                    let sh = WB * (n1 - n0) as u32;
                    assert!((l0 << sh) <= l1 && l1 + r1 <= ((l0 + r0) << sh), "C02/C11/C06: interval after the step is not nested in the interval before the step");
                }
                assert!(st1.range().get() as u128 == ra, "C06: range after encode differs from interval spec");
                assert!(n1 == na, "C06: number of emitted+held-back words differs from interval spec");
                assert!(l1 == la, "C06: lower/emitted words differ from interval spec");
                assert!(inv_ok(&st1, &sit1), "C06: range encoder representation invariant lost");
                cover!(renorm, "renormalisation");
                cover!(matches!(sit, EncoderSituation::Normal) && matches!(sit1, EncoderSituation::Inverted(..)), "normal -> inverted");
                cover!(matches!(sit, EncoderSituation::Inverted(..)) && matches!(sit1, EncoderSituation::Normal) && sink.n > 0, "inverted -> normal");
                cover!(matches!(sit, EncoderSituation::Inverted(..)) && matches!(sit1, EncoderSituation::Inverted(..)) && renorm, "inverted -> inverted");
            }

            /// C12: one symbol adds at most one word (emitted or held back) and
            /// range*p*2^k <= range'*2^P*(2^k+1) with range' taken before the renormalising shift.
            #[cfg_attr(kani, kani::proof)]
            #[cfg_attr(kani, kani::unwind(10))]
            #[cfg_attr(kani, kani::solver($solver))]
            pub fn enc_potential() {
                let (st, sit) = any_enc_state(MAX_INV);
                let (_, n0) = abs_l(&[], &sit, st.lower());
                let e = any_entry::<Pr, P>(false);
                let mut enc = Enc::from_raw_parts(Sink::default(), st, sit);
                if enc.encode_symbol(e.sym, e).is_err() { return; }
                let (sink, st1, sit1) = enc.into_raw_parts();
                let (_, n1) = abs_l(sink.live(), &sit1, st1.lower());
                assert!(n1 <= n0 + 1, "C12: more than one word per symbol");
                let r1 = if n1 > n0 { (st1.range().get() as u128) >> WB } else { st1.range().get() as u128 };
                let k = 1u128 << (SB - WB - P as u32);
                assert!((st.range().get() as u128) * (e.prob.get() as u128) * k <= r1 * (1u128 << P) * (k + 1), "C12: range potential inequality violated");
                cover!(n1 > n0, "renormalised");
            }

            /// C09: a symbol outside the model's support is rejected and the encoder is untouched.
            #[cfg_attr(kani, kani::proof)]
            #[cfg_attr(kani, kani::unwind(10))]
            #[cfg_attr(kani, kani::solver($solver))]
            pub fn enc_impossible() {
                let (st, sit) = any_enc_state(MAX_INV);
                let e = any_entry::<Pr, P>(false);
                let sym: u16 = any(); assume(sym != e.sym);
                let mut enc = Enc::from_raw_parts(Sink::default(), st, sit);
                let r = enc.encode_symbol(sym, e);
                assert!(matches!(r, Err(CoderError::Frontend(DefaultEncoderFrontendError::ImpossibleSymbol))), "C09: impossible symbol not rejected by the range encoder");
                let (sink, st1, sit1) = enc.into_raw_parts();
                assert!(sink.n == 0 && st1 == st && sit1 == sit, "C09: range encoder changed by a rejected symbol");
            }

            /// C10 + C02(decoder invariant): from any decoder state the constructor accepts, one
            /// decode_symbol is total: Ok(symbol of the model) or InvalidData, never a panic or
            /// overflow; on success the invariant point-lower < range and range >= 2^(sb-wb) hold again
            /// and the state follows the interval step; InvalidData only if the quantile is >= 2^P.
            #[cfg_attr(kani, kani::proof)]
            #[cfg_attr(kani, kani::unwind(10))]
            #[cfg_attr(kani, kani::solver($solver))]
            pub fn dec_step() {
                let lower: S = any(); let range: S = any(); let point: S = any();
                let st = match RangeCoderState::<W, S>::new(lower, range) { Ok(s) => s, Err(_) => return };
                let src = Sink { buf: any_arr::<W, 8>(), n: any(), pos: 0, cap: 8 };
                assume(src.n <= 1);
                let mut dec = match Dec::from_raw_parts(src, st, point) { Ok(d) => d, Err(_) => { assert!(point.wrapping_sub(lower) >= range, "C10/C02: from_raw_parts rejected a valid point"); return; } };
                let e = any_entry::<Pr, P>(true);
                let scale = range >> P;
                // quantile = d / scale, stated without a second division:  q >= x  <=>  d >= scale*x
                let d = point.wrapping_sub(lower) as u128;
                let sc = scale as u128;
                match dec.decode_symbol(e) {
                    Ok(s) => {
                        assert!(d < (sc << P), "C10: quantile out of range accepted");
                        let inside = d >= sc * e.cum as u128 && d < sc * (e.cum as u128 + e.prob.get() as u128);
                        let grp = group(2);
                        if grp == 1 { assert!((s == e.sym) == inside, "C06: range decoder returned a symbol whose interval does not hold the quantile of the published step"); }
                        assert!(s == e.sym || s == !e.sym, "C10: symbol outside the model");
                        let (b, st1, p1) = dec.into_raw_parts();
                        assert!(p1.wrapping_sub(st1.lower()) < st1.range().get(), "C10/C02: decoder invariant point-lower < range lost");
                        assert!((st1.range().get() >> (SB - WB)) != 0, "C10/C02: decoder invariant range >= 2^(sb-wb) lost");
                        if inside && grp == 1 {
                            // C06: decoder mirrors the encoder's interval step
                            let r1 = scale as u128 * e.prob.get() as u128;
                            let l1 = lower.wrapping_add(scale.wrapping_mul(e.cum as S));
                            if r1 < (1u128 << (SB - WB)) {
                                assert!(st1.range().get() as u128 == r1 << WB && st1.lower() == l1 << WB, "C06: decoder renormalisation differs from interval spec");
                                let w = if src.n > 0 { src.buf[0] } else { 0 };
                                assert!(p1 == (point << WB) | w as S, "C06: decoder must shift in the next word (or zero)");
                                assert!(b.pos == src.n, "C06: decoder must consume exactly one word on renormalisation");
                            } else {
                                assert!(st1.range().get() as u128 == r1 && st1.lower() == l1 && p1 == point && b.pos == 0, "C06: decoder step differs from interval spec");
                            }
                        }
                        cover!(inside && (scale as u128 * e.prob.get() as u128) < (1u128 << (SB - WB)), "decoder renormalisation");
                    }
                    Err(CoderError::Frontend(DecoderFrontendError::InvalidData)) => {
                        assert!(d >= (sc << P), "C10: InvalidData although the quantile is legal");
                    }
                    Err(_) => assert!(false, "C10: undocumented error from the range decoder"),
                }
            }

            /// C11 (+ seal link of C02, C18 num_seal_words via num_words): for every encoder state,
            /// the words written by sealing, followed by ANY suffix, denote a value X with
            /// L <= X < L+R at the decoder's window resolution. Also: seal emits 1..=2 words after the pending ones.
            #[cfg_attr(kani, kani::proof)]
            #[cfg_attr(kani, kani::unwind(12))]
            #[cfg_attr(kani, kani::solver($solver))]
            pub fn seal_suffix() {
                let (st, sit) = any_enc_state(2);
                assume(st.range().get() != S::MAX);
                let npend = if let EncoderSituation::Inverted(n, _) = sit { n.get() } else { 0 };
                let enc = Enc::from_raw_parts(Sink::default(), st, sit);
                let nwords = enc.num_words();
                let sink = match enc.into_compressed() { Ok(s) => s, Err(_) => { assert!(false, "C11/C02/C06/C18/C12: seal failed on a non-full sink"); return; } };
                // independent assertion groups (see kx::group): 0 size report, 1 sealing rule, 2 containment, 3 end of stream
                let grp = group(4);
                if grp == 0 { assert!(nwords == sink.n, "C18/C12: num_words differs from the number of words sealing writes"); return; }
                if sink.n < npend + 1 || sink.n > npend + 2 { assert!(false, "C12/C11/C02/C06: seal must add one or two words to the pending ones"); return; }
                let nseal = sink.n - npend;
                if grp == 1
                // C06: the documented sealing rule, as an independent reference: pending words resolved by the carry of
                // point = lower + 2^(sb-wb) - 1; then the top word of point; then one zero word iff the top word of
                // lower + range (exclusive end) equals it
                {
                    let point = st.lower().wrapping_add(((1 as S) << (SB - WB)) - 1);
                    let carry = point < st.lower();
                    let mut exp = [0 as W; 8]; let mut k = 0;
                    if let EncoderSituation::Inverted(n, first) = sit {
                        exp[0] = if carry { first + 1 } else { first }; k = 1;
                        while k < n.get() { exp[k] = if carry { 0 } else { W::MAX }; k += 1; }
                    }
                    let pw = (point >> (SB - WB)) as W;
                    exp[k] = pw; k += 1;
                    if (st.lower().wrapping_add(st.range().get()) >> (SB - WB)) as W == pw { exp[k] = 0; k += 1; }
                    assert!(sink.n == k, "C06: number of sealed words differs from the documented sealing rule");
                    let mut i = 0; while i < k && i < sink.n { assert!(sink.buf[i] == exp[i], "C06: sealed words differ from the documented sealing rule"); i += 1; }
                    return;
                }
                let mut buf = sink.buf;
                // arbitrary continuation after the sealed words
                let mut i = sink.n; while i < 8 { buf[i] = any(); i += 1; }
                // X = value(pending words) * 2^sb + window of NW words after them
                let mut x: u128 = 0; let mut i = 0; while i < npend + NW { x = (x << WB) | buf[i] as u128; i += 1; }
                let (l, _) = abs_l(&[], &sit, st.lower());
                if grp == 2 {
                    if nseal == 1 {
                        assert!(l <= x && x < l + st.range().get() as u128, "C11/C02: one seal word followed by a suffix leaves the encoder's interval");
                    } else {
                        assert!(l <= x && x < l + st.range().get() as u128, "C11/C02: two seal words followed by a suffix leave the encoder's interval");
                    }
                }
                // C02/C18 (end of stream): the decoder that has consumed exactly this message - same (lower, range) as the
                // encoder (coupling), window = the sealed words after the pending ones, zero padded, backend exhausted -
                // must report maybe_exhausted
                if grp == 3 {
                    let mut x0: u128 = 0; let mut i = npend; while i < npend + NW { x0 = (x0 << WB) | (if i < sink.n { sink.buf[i] as u128 } else { 0 }); i += 1; }
                    let mut end = Sink::default(); end.pos = 0; end.n = 0;
                    match Dec::from_raw_parts(end, st, x0 as S) {
                        Ok(d) => assert!(d.maybe_exhausted(), "C02/C18: decoder at the end of a sealed stream must report maybe_exhausted"),
                        Err(_) => assert!(false, "C02/C11: sealed words (zero padded) leave the encoder's interval"),
                    }
                }
                cover!(nseal == 2, "two seal words");
                cover!(npend == 2, "sealed while two words were held back");
            }

            /// C07 (last clause): seeking a decoder over the finished data to the encoder's FINAL position
            /// (snapshot taken after the last symbol, also while words are held back) succeeds and leaves
            /// the decoder possibly exhausted, from every final encoder state.
            #[cfg_attr(kani, kani::proof)]
            #[cfg_attr(kani, kani::unwind(12))]
            #[cfg_attr(kani, kani::solver($solver))]
            pub fn seek_final_position() {
                let (st, sit) = any_enc_state(2);
                assume(st.range().get() != S::MAX);
                let npend = if let EncoderSituation::Inverted(n, _) = sit { n.get() } else { 0 };
                let enc = Enc::from_raw_parts(Sink::default(), st, sit);
                let sink = match enc.into_compressed() { Ok(s) => s, Err(_) => return };
                let src = Sink { buf: sink.buf, n: sink.n, pos: 0, cap: 8 };
                let mut dec = match Dec::with_backend(src) { Ok(d) => d, Err(_) => return };
                match dec.seek((npend, st)) {
                    Ok(()) => assert!(dec.maybe_exhausted(), "C07: seeking to the final position of the encoder must leave the decoder possibly exhausted"),
                    Err(()) => assert!(false, "C07: seeking to the final position of the encoder was refused"),
                }
                cover!(npend == 2, "final snapshot taken while two words were held back");
            }

            /// C02/C18: an empty message seals to no words.
            #[cfg_attr(kani, kani::proof)]
            #[cfg_attr(kani, kani::unwind(4))]
            pub fn empty_message() {
                let enc = Enc::with_backend(Sink::default());
                assert!(enc.num_words() == 0, "C18: empty range encoder reports words");
                assert!(enc.is_empty(), "C18: fresh range encoder not empty");
                match enc.into_compressed() { Ok(s) => assert!(s.n == 0, "C02: empty message must produce no words"), Err(_) => assert!(false, "C02: seal failed") }
            }

            /// C07: pos() of the encoder = words in the backend + held-back words, state = (lower, range).
            #[cfg_attr(kani, kani::proof)]
            #[cfg_attr(kani, kani::unwind(10))]
            pub fn enc_pos() {
                let (st, sit) = any_enc_state(usize::MAX);
                let mut sink = Sink::default(); sink.n = any(); assume(sink.n <= 8);
                sink.pos = sink.n; // `Pos` of the stub sink reports its write position
                let npend = if let EncoderSituation::Inverted(n, _) = sit { n.get() } else { 0 };
                assume(npend < usize::MAX - 8);
                struct WPos(Sink);
                impl constriction::backends::WriteWords<W> for WPos { type WriteError = (); fn write(&mut self, w: W) -> Result<(), ()> { self.0.write(w) } }
                impl constriction::PosSeek for WPos { type Position = usize; }
                impl Pos for WPos { fn pos(&self) -> usize { self.0.n } }
                let enc = RangeEncoder::<W, S, WPos>::from_raw_parts(WPos(sink), st, sit);
                let (p, s) = enc.pos();
                assert!(p == sink.n + npend, "C07: encoder position must count held-back words");
                assert!(s == st, "C07: encoder position must carry the coder state");
            }

            /// C07: seek(pos, state) on a decoder re-reads the window at pos and installs the state;
            /// positions beyond the data are refused and leave the decoder usable.
            #[cfg_attr(kani, kani::proof)]
            #[cfg_attr(kani, kani::unwind(10))]
            pub fn dec_seek() {
                let src = Sink { buf: any_arr::<W, 8>(), n: any(), pos: 0, cap: 8 };
                assume(src.n <= 8);
                let mut dec = match Dec::with_backend(src) { Ok(d) => d, Err(_) => return };
                let lower: S = any(); let range: S = any();
                let st = match RangeCoderState::<W, S>::new(lower, range) { Ok(s) => s, Err(_) => return };
                let pos: usize = any();
                let r = dec.seek((pos, st));
                if pos > src.n {
                    assert!(r.is_err(), "C07: seek beyond the data must be refused");
                } else {
                    assert!(r.is_ok(), "C07: seek to a valid position refused");
                    let (b, st1, point) = dec.into_raw_parts();
                    assert!(st1 == st, "C07: seek must install the recorded state");
                    let mut x: u128 = 0; let mut i = 0;
                    while i < NW { x = (x << WB) | (if pos + i < src.n { src.buf[pos + i] as u128 } else { 0 }); i += 1; }
                    assert!(point as u128 == x, "C07: seek must load the window of words at the recorded position (zero padded)");
                    assert!(b.pos == core::cmp::min(pos + NW, src.n), "C07: seek must leave the backend after the window");
                }
            }

            /// C02/C18: read_point (via with_backend): first sb/wb words, zero padded; fresh decoder
            /// over no data is maybe_exhausted; over more than a window of data it is not.
            #[cfg_attr(kani, kani::proof)]
            #[cfg_attr(kani, kani::unwind(10))]
            pub fn dec_new() {
                let src = Sink { buf: any_arr::<W, 8>(), n: any(), pos: 0, cap: 8 };
                assume(src.n <= 8);
                let dec = match Dec::with_backend(src) { Ok(d) => d, Err(_) => { assert!(false, "C10: decoder construction failed"); return; } };
                let me = dec.maybe_exhausted();
                let (b, st, point) = dec.into_raw_parts();
                let mut x: u128 = 0; let mut i = 0;
                while i < NW { x = (x << WB) | (if i < src.n { src.buf[i] as u128 } else { 0 }); i += 1; }
                assert!(point as u128 == x, "C02: decoder must start from the first sb/wb words, zero padded");
                assert!(st.lower() == 0 && st.range().get() == S::MAX, "C02: decoder must start from the full interval");
                if src.n == 0 { assert!(me, "C18: decoder over empty data must report maybe_exhausted"); }
                if src.n > NW { assert!(!me, "C18: decoder with whole words left must not report exhaustion"); }
            }
        }
    };
}

range_harnesses!(u8_u16_p8, u8, u16, u8, 8, kissat);
range_harnesses!(u8_u16_p3, u8, u16, u8, 3, kissat);
range_harnesses!(u8_u16_p5, u8, u16, u8, 5, kissat);
range_harnesses!(u8_u16_p1, u8, u16, u8, 1, kissat);
range_harnesses!(u8_u32_p8, u8, u32, u8, 8, kissat);
range_harnesses!(u16_u32_p12, u16, u32, u16, 12, kissat);
range_harnesses!(u32_u64_p24, u32, u64, u32, 24, kissat);

/// C02 (bounded stand-in): whole messages of N symbols through the real encoder, seal, and the
/// real decoder on array backends; symbolic entries; decoder reports maybe_exhausted at the end.
macro_rules! range_msg {
    ($name:ident, $W:ty, $S:ty, $P:expr, $n:expr) => {
        #[cfg_attr(kani, kani::proof)]
        #[cfg_attr(kani, kani::unwind(14))]
        #[cfg_attr(kani, kani::solver(kissat))]
        pub fn $name() {
            const P: usize = $P;
            type Q = ArrQueue<$W, 12>;
            let mut ms = [any_entry::<$W, P>(false); $n];
            let mut i = 1; while i < $n { ms[i] = any_entry::<$W, P>(false); i += 1; }
            let mut enc = RangeEncoder::<$W, $S, Q>::with_backend(Q::default());
            let mut i = 0; while i < $n { if enc.encode_symbol(ms[i].sym, ms[i]).is_err() { assert!(false, "C02: encode failed"); return; } i += 1; }
            let comp = match enc.into_compressed() { Ok(c) => c, Err(_) => { assert!(false, "C02: seal failed"); return; } };
            assert!(comp.n <= $n + 2, "C12: more than n + 2 words for n symbols");
            let mut dec = match RangeDecoder::<$W, $S, Q>::with_backend(comp) { Ok(d) => d, Err(_) => return };
            let mut i = 0;
            while i < $n {
                match dec.decode_symbol(ms[i]) { Ok(s) => assert!(s == ms[i].sym, "C02: decoded symbol differs from the encoded one"), Err(_) => assert!(false, "C02: decoding a sealed stream failed") }
                i += 1;
            }
            assert!(dec.maybe_exhausted(), "C02/C18: decoder must report maybe_exhausted after the last symbol");
        }
    };
}
/// C08 + C18: RangeEncoder::get_compressed (Vec backend): the view equals what into_compressed
/// would return at that moment (also while words are held back), num_words agrees, and dropping
/// the view restores bulk, state and situation exactly; decoder() likewise.
#[cfg_attr(kani, kani::proof)]
#[cfg_attr(kani, kani::unwind(8))]
pub fn guard_u8_u16() {
    let (st, sit) = u8_u16_p8::any_enc_state(2);
    let pre: [u8; 2] = [any(), 0];
    let npre: usize = any(); assume(npre <= 1);
    let mut v: Vec<u8> = Vec::with_capacity(8);
    let mut i = 0; while i < npre { v.push(pre[i]); i += 1; }
    let mut enc = RangeEncoder::<u8, u16, Vec<u8>>::from_raw_parts(v, st, sit);
    let twin = enc.clone().into_compressed().unwrap();
    let nw = enc.num_words();
    // independent assertion groups (kx::group): 0 size report, 1 what the view shows, 2 the encoder after the view is
    // dropped, 3 the same through the temporary decoder()
    let grp = group(4);
    if grp == 0 { assert!(nw == twin.len(), "C18: RangeEncoder::num_words differs from the length of what sealing returns"); return; }
    if grp == 3 {
        let d = enc.decoder();
        let (_cur, dst, point) = d.into_raw_parts();
        let mut x: u16 = 0; let mut i = npre; while i < npre + 2 { x = (x << 8) | (if i < twin.len() { twin[i] as u16 } else { 0 }); i += 1; }
        let mut x0: u16 = 0; let mut i = 0; while i < 2 { x0 = (x0 << 8) | (if i < twin.len() { twin[i] as u16 } else { 0 }); i += 1; }
        let _ = x;
        assert!(point == x0 && dst.lower() == 0 && dst.range().get() == u16::MAX, "C08: temporary decoder does not start at the beginning of what finishing the encoder would return");
    } else {
        let g = enc.get_compressed();
        if grp == 1 {
            assert!(g.len() == twin.len(), "C08: range encoder view has a different length than finishing the encoder would return");
            let mut i = 0; while i < twin.len() { assert!(g[i] == twin[i], "C08: range encoder view differs from what finishing the encoder would return"); i += 1; }
        }
    }
    if grp == 1 { return; }
    let (b, st1, sit1) = enc.into_raw_parts();
    assert!(st1 == st && sit1 == sit, "C08/C02/C06/C11/C12: dropping the view changed the range encoder's state or situation");
    assert!(b.len() == npre, "C08/C02/C06/C11/C12: dropping the view did not remove exactly the seal words");
    let mut i = 0; while i < npre { assert!(b[i] == pre[i], "C08/C02/C06/C11/C12: dropping the view changed the words written so far"); i += 1; }
    cover!(matches!(sit, EncoderSituation::Inverted(..)), "inspected while words are held back");
}

/// C02 / C17: the borrowing and owning decoder constructors start at the BEGINNING of the
/// compressed words: for_compressed(&words) and from_compressed(words) load the first
/// State/Word words (zero padded) and the full interval.
#[cfg_attr(kani, kani::proof)]
#[cfg_attr(kani, kani::unwind(8))]
pub fn decoder_constructors_u8_u16() {
    let d = any_arr::<u8, 3>();
    let n: usize = any(); assume(n <= 3);
    let mut v: Vec<u8> = Vec::with_capacity(4);
    let mut i = 0; while i < n { v.push(d[i]); i += 1; }
    let mut x: u16 = 0; let mut i = 0; while i < 2 { x = (x << 8) | (if i < n { d[i] as u16 } else { 0 }); i += 1; }
    if group(2) == 0 {
        let dec = match RangeDecoder::<u8, u16, _>::for_compressed(&v) { Ok(d) => d, Err(_) => return };
        let (_b, st, point) = dec.into_raw_parts();
        assert!(point == x && st.lower() == 0 && st.range().get() == u16::MAX, "C02/C17: for_compressed must start decoding at the first word of the compressed data");
    } else {
        let dec = match RangeDecoder::<u8, u16, _>::from_compressed(v) { Ok(d) => d, Err(_) => return };
        let (_b, st, point) = dec.into_raw_parts();
        assert!(point == x && st.lower() == 0 && st.range().get() == u16::MAX, "C02/C17: from_compressed must start decoding at the first word of the compressed data");
    }
}

/// C18: RangeEncoder::is_empty holds exactly when sealing would return nothing: a fresh encoder on
/// a sink that already holds words is not empty.
#[cfg_attr(kani, kani::proof)]
#[cfg_attr(kani, kani::unwind(8))]
pub fn is_empty_u8_u16() {
    let npre: usize = any(); assume(npre <= 2);
    let mut v: Vec<u8> = Vec::with_capacity(4);
    let mut i = 0; while i < npre { v.push(any()); i += 1; }
    let fresh: bool = any();
    let enc = if fresh { RangeEncoder::<u8, u16, Vec<u8>>::with_backend(v) } else {
        let (st, sit) = u8_u16_p8::any_enc_state(1);
        assume(st.range().get() != u16::MAX);
        RangeEncoder::<u8, u16, Vec<u8>>::from_raw_parts(v, st, sit)
    };
    let e = enc.is_empty();
    let n = enc.num_words();
    let out = enc.into_compressed().unwrap();
    assert!(e == (out.len() == 0), "C18: RangeEncoder::is_empty must hold exactly when exporting returns nothing");
    assert!(n == out.len(), "C18/C12: RangeEncoder::num_words differs from the length of the export");
}

/// C02: `clear()` ("resets the coder to the same state as new") must leave an encoder that behaves
/// like a fresh one: the next message it seals is that message and nothing else.  From ANY encoder
/// state (also while words are held back for a pending carry): after clear(), encoding one symbol
/// and sealing yields exactly the words a new encoder yields for that symbol.
#[cfg_attr(kani, kani::proof)]
#[cfg_attr(kani, kani::unwind(8))]
pub fn clear_then_encode_u8_u16() {
    let (st, sit) = u8_u16_p8::any_enc_state(2);
    let mut v: Vec<u8> = Vec::with_capacity(8);
    v.push(any());
    let mut enc = RangeEncoder::<u8, u16, Vec<u8>>::from_raw_parts(v, st, sit);
    enc.clear();
    let mut fresh = RangeEncoder::<u8, u16, Vec<u8>>::with_backend(Vec::with_capacity(8));
    let e = any_entry::<u8, 8>(false);
    if enc.encode_symbol(e.sym, e).is_err() || fresh.encode_symbol(e.sym, e).is_err() { assert!(false, "C02: encode failed"); return; }
    let a = enc.into_compressed().unwrap(); let b = fresh.into_compressed().unwrap();
    assert!(a.len() == b.len(), "C02/C06/C12: a cleared range encoder seals a different number of words than a new one");
    let mut i = 0; while i < b.len() { assert!(a[i] == b[i], "C02/C06/C12: a cleared range encoder seals different words than a new one"); i += 1; }
    cover!(matches!(sit, EncoderSituation::Inverted(..)), "cleared while words were held back");
}

pub mod msg {
    use super::*;
    range_msg!(n1_u8_u16_p5, u8, u16, 5, 1);
    range_msg!(n1_u8_u16_p8, u8, u16, 8, 1);
    range_msg!(n2_u8_u16_p5, u8, u16, 5, 2);
    range_msg!(n2_u8_u16_p8, u8, u16, 8, 2);
    range_msg!(n3_u8_u16_p5, u8, u16, 5, 3);
    range_msg!(n3_u8_u16_p3, u8, u16, 3, 3);
}
