//! Entropy models (src/stream/model/**): every constructor output satisfies the ghost-model
//! contract of DESIGN §4 (C03), representations agree (C05), out-of-support symbols are
//! rejected (C09), constructors reject invalid input (C19), unsafe preconditions hold (C20).
use crate::cover;
use crate::kx::*;
use constriction::stream::model::*;
use core::cell::RefCell;
use probability::distribution::{Distribution, Inverse};

// ------------------------------------------------------------------ uniform

macro_rules! uniform_harnesses {
    ($modname:ident, $Pr:ty, $P:expr) => {
        pub mod $modname {
            use super::*;
            type Pr = $Pr;
            const P: usize = $P;
            const TOTAL: u64 = 1u64 << P;

            /// C03/C05/C09: for every valid range: encoder view tiles [0,2^P) with non-empty
            /// consecutive intervals, no probability one; symbols >= range (ANY usize value) are
            /// rejected; quantile_function returns the triple the encoder reports; the symbol
            /// table's i-th row is the encoder view of symbol i.
            #[cfg_attr(kani, kani::proof)]
            #[cfg_attr(kani, kani::unwind(4))]
            pub fn valid() {
                let range: usize = any();
                assume(range >= 2 && (range as u64) <= TOTAL);
                let m = UniformModel::<Pr, P>::new(range);
                let s: usize = any();
                match m.left_cumulative_and_probability(s) {
                    None => assert!(s >= range, "C03: in-support symbol reported as impossible by UniformModel"),
                    Some((cum, p)) => {
                        assert!(s < range, "C09/C03: UniformModel accepted a symbol outside its support (outside the support the probability must be zero)");
                        if s < range {
                            let (cum, p) = (cum as u64, p.get() as u64);
                            assert!(p >= 1 && cum + p <= TOTAL && p < TOTAL, "C03: UniformModel entry not a proper sub-interval");
                            if s == 0 { assert!(cum == 0, "C03: first symbol must start at 0"); }
                            if s + 1 == range { assert!(cum + p == TOTAL, "C03: last symbol must end at 2^P"); }
                            else {
                                let (c2, _) = m.left_cumulative_and_probability(s + 1).unwrap();
                                assert!(c2 as u64 == cum + p, "C03: UniformModel intervals not consecutive");
                            }
                        }
                    }
                }
                let q: Pr = any();
                assume((q as u64) < TOTAL);
                let (sq, cq, pq) = m.quantile_function(q);
                assert!((cq as u64) <= q as u64 && (q as u64) < cq as u64 + pq.get() as u64, "C03: quantile not inside the returned interval (UniformModel)");
                assert!(m.left_cumulative_and_probability(sq) == Some((cq, pq)), "C03: UniformModel quantile_function disagrees with the encoder view");
                cover!(s < range && s + 1 == range, "last symbol");
                cover!(s > u32::MAX as usize, "symbol beyond 32 bits");
            }

            /// C05 (bounded: range <= 4): every row of the symbol table is the encoder view of that symbol.
            #[cfg_attr(kani, kani::proof)]
            #[cfg_attr(kani, kani::unwind(7))]
            pub fn table_small() {
                let range: usize = any();
                assume(range >= 2 && range <= 4 && (range as u64) <= TOTAL);
                let m = UniformModel::<Pr, P>::new(range);
                let mut it = m.symbol_table();
                let mut i = 0usize;
                while i < range {
                    let row = it.next();
                    let (c, p) = m.left_cumulative_and_probability(i).unwrap();
                    assert!(row == Some((i, c, p)), "C05: UniformModel symbol_table row differs from the encoder view");
                    i += 1;
                }
                assert!(it.next().is_none(), "C05: UniformModel symbol_table has extra rows");
            }

            /// C05: the symbol table of the FULL alphabet at this precision (range == 2^P, where the bin count does
            /// not fit the probability type when P == its width) has exactly 2^P rows, each the encoder view.
            #[cfg_attr(kani, kani::proof)]
            #[cfg_attr(kani, kani::unwind(260))]
            pub fn table_full() {
                let range: usize = TOTAL as usize;
                let m = UniformModel::<Pr, P>::new(range);
                let k: usize = any(); assume(k < range);
                let mut it = m.symbol_table();
                let mut i = 0usize; let mut row = it.next();
                while i < k { row = it.next(); i += 1; }
                let (c, p) = m.left_cumulative_and_probability(k).unwrap();
                assert!(row == Some((k, c, p)), "C05: UniformModel symbol_table row differs from the encoder view (full alphabet)");
                cover!(k == range - 1, "last row");
            }

            /// C19: ranges 0, 1 and > 2^P are refused (panic), never turned into a model.
            #[cfg_attr(kani, kani::proof)]
            #[cfg_attr(kani, kani::unwind(4))]
            pub fn invalid() {
                let range: usize = any();
                assume(range < 2 || (range as u64) > TOTAL);
                let m = UniformModel::<Pr, P>::new(range);
                if group(2) == 0 { assert!(false, "C19: UniformModel::new accepted an invalid range"); return; }
                // C20: whatever new() returns must not carry a zero inside the non-zero probability type
                let s: usize = any();
                if let Some((_, p)) = m.left_cumulative_and_probability(s) { assert!(p.get() != 0, "C20: a zero value inside a non-zero probability type (uniform model built from an invalid range)"); }
                let q: Pr = any(); assume((q as u64) < TOTAL);
                let (_, _, p) = m.quantile_function(q);
                assert!(p.get() != 0, "C20: a zero value inside a non-zero probability type (uniform model built from an invalid range)");
            }
        }
    };
}
uniform_harnesses!(uniform_u8_p8, u8, 8);
uniform_harnesses!(uniform_u8_p5, u8, 5);
uniform_harnesses!(uniform_u16_p12, u16, 12);

// ------------------------------------------------------------------ fixed-point tables

/// spec of a valid fixed-point table: all provided entries nonzero, at least two symbols in
/// total, sum == 2^P (no inference) or sum < 2^P (last one inferred).
fn table_valid(p: &[u8; 3], len: usize, infer: bool, prec: u32) -> bool {
    let total = 1u32 << prec;
    let mut sum = 0u32; let mut i = 0;
    while i < len { if p[i] == 0 { return false; } sum += p[i] as u32; i += 1; }
    if infer { len + 1 >= 2 && sum < total } else { len >= 2 && sum == total }
}

/// contract of every model built by a table constructor: tiling, no zero, no probability one,
/// rejection outside the support, quantile_function == encoder view.
pub fn check_contiguous_model<M, const PREC: usize>(m: &M, n: usize)
where M: EncoderModel<PREC, Symbol = usize, Probability = u8> + DecoderModel<PREC, Symbol = usize, Probability = u8> {
    let total: u32 = 1u32 << PREC;
    assert!(n >= 2, "C19/C03: constructor built a model with fewer than two symbols");
    let s: usize = any();
    match m.left_cumulative_and_probability(s) {
        None => assert!(s >= n, "C03: model reports an in-support symbol as impossible"),
        Some((cum, p)) => {
            assert!(s < n, "C09/C03: model accepted a symbol outside its support");
            if s < n {
                let (cum, p) = (cum as u32, p.get() as u32);
                assert!(p != 0, "C20/C03: a zero value inside a non-zero probability type");
                assert!(p >= 1 && cum + p <= total && p < total, "C03: model entry is not a proper sub-interval of [0,2^P)");
                if s == 0 { assert!(cum == 0, "C03: first symbol must start at 0"); }
                if s + 1 == n { assert!(cum + p == total, "C03: last symbol must end at 2^P"); }
                else { assert!(m.left_cumulative_and_probability(s + 1).unwrap().0 as u32 == cum + p, "C03: model intervals not consecutive"); }
            }
        }
    }
    let q: u8 = any(); assume((q as u32) < total);
    let (sq, cq, pq) = m.quantile_function(q);
    assert!(cq <= q && (q as u32) < cq as u32 + pq.get() as u32, "C03: quantile not inside the interval returned by quantile_function");
    assert!(m.left_cumulative_and_probability(sq) == Some((cq, pq)), "C03: quantile_function disagrees with the encoder view");
}

macro_rules! fixed_table_harness {
    ($name:ident, $P:expr, $LEN:expr, $INFER:expr) => {
        /// C19 + C03 + C09 + C05: from_nonzero_fixed_point_probabilities over ALL tables of $LEN u8
        /// entries (infer_last_probability = $INFER): Ok <=> the table is valid; Ok models satisfy
        /// the model contract; symbol table rows and views equal the encoder view.
        #[cfg_attr(kani, kani::proof)]
        #[cfg_attr(kani, kani::unwind(6))]
        pub fn $name() {
            const P: usize = $P; const LEN: usize = $LEN; const INFER: bool = $INFER;
            type M = ContiguousCategoricalEntropyModel<u8, Vec<u8>, P>;
            let t = any_arr::<u8, LEN>();
            let mut p = [0u8; 3]; let mut i = 0; while i < LEN { p[i] = t[i]; i += 1; }
            let valid = table_valid(&p, LEN, INFER, P as u32);
            match M::from_nonzero_fixed_point_probabilities(&t[..], INFER) {
                Err(()) => assert!(!valid, "C19: valid fixed-point table refused (inferring the last probability must work at every precision)"),
                Ok(m) => {
                    // independent assertion groups (kx::group): 0 acceptance, 1 model contract of whatever was accepted, 2 table rows / view
                    let grp = group(3);
                    if grp == 0 { assert!(valid, "C19: invalid fixed-point table accepted"); return; }
                    let n = LEN + INFER as usize;
                    if grp == 1 {
                        assert!(m.support_size() == n, "C03: support size differs from the number of table entries");
                        check_contiguous_model::<_, P>(&m, n);
                        return;
                    }
                    let i: usize = any(); assume(i < n);
                    let mut it = m.symbol_table();
                    let mut k = 0; let mut row = it.next(); while k < i { row = it.next(); k += 1; }
                    let (c, pr) = m.left_cumulative_and_probability(i).unwrap();
                    assert!(row == Some((i, c, pr)), "C05: symbol_table row differs from the encoder view");
                    assert!(m.as_view().left_cumulative_and_probability(i) == Some((c, pr)), "C05: view differs from its owner");
                }
            }
            cover!((LEN + (INFER as usize)) < 2 || valid, "a valid table exists (or the table is too short to be valid)");
        }
    };
}
pub mod table_u8_p8 {
    use super::*;
    fixed_table_harness!(len0_infer, 8, 0, true);
    fixed_table_harness!(len1, 8, 1, false);
    fixed_table_harness!(len1_infer, 8, 1, true);
    fixed_table_harness!(len2, 8, 2, false);
    fixed_table_harness!(len2_infer, 8, 2, true);
    fixed_table_harness!(len3, 8, 3, false);
}
pub mod table_u8_p7 {
    use super::*;
    fixed_table_harness!(len0_infer, 7, 0, true);
    fixed_table_harness!(len1, 7, 1, false);
    fixed_table_harness!(len1_infer, 7, 1, true);
    fixed_table_harness!(len2, 7, 2, false);
    fixed_table_harness!(len2_infer, 7, 2, true);
    fixed_table_harness!(len3, 7, 3, false);
}

/// C05 + C10 + C20: lookup decoder built from a contiguous model / from the same table returns,
/// for EVERY quantile, the triple of the searched decoder; table indexing is in bounds.
#[cfg_attr(kani, kani::proof)]
#[cfg_attr(kani, kani::unwind(20))]
pub fn lookup_contiguous_p4() {
    const P: usize = 4;
    let p = any_arr::<u8, 3>(); let len: usize = any(); let infer: bool = any();
    assume(len <= 3);
    let m = match ContiguousCategoricalEntropyModel::<u8, Vec<u8>, P>::from_nonzero_fixed_point_probabilities(&p[..len], infer) { Ok(m) => m, Err(()) => return };
    let l1 = m.to_lookup_decoder_model();
    let l2 = match ContiguousLookupDecoderModel::<u8, Vec<u8>, Box<[u8]>, P>::from_nonzero_fixed_point_probabilities(&p[..len], infer) { Ok(l) => l, Err(()) => { assert!(false, "C19: lookup constructor refuses a table the searched model accepts"); return; } };
    let q: u8 = any(); assume(q < 16);
    let r = m.quantile_function(q);
    assert!(l1.quantile_function(q) == r, "C05: lookup decoder (converted) differs from the searched decoder");
    assert!(l2.quantile_function(q) == r, "C05: lookup decoder (from table) differs from the searched decoder");
    assert!(l2.as_contiguous_categorical().quantile_function(q) == r, "C05: as_contiguous_categorical differs");
    let i: usize = any(); assume(i < m.support_size());
    assert!(l2.symbol_table().nth(i) == m.symbol_table().nth(i), "C05: lookup symbol_table differs");
}

/// C19: a lookup constructor must refuse what the searched constructor refuses.
#[cfg_attr(kani, kani::proof)]
#[cfg_attr(kani, kani::unwind(20))]
pub fn lookup_contiguous_rejects_p4() {
    const P: usize = 4;
    let p = any_arr::<u8, 3>(); let len: usize = any(); let infer: bool = any();
    assume(len <= 3);
    let valid = table_valid(&p, len, infer, P as u32);
    let r = ContiguousLookupDecoderModel::<u8, Vec<u8>, Box<[u8]>, P>::from_nonzero_fixed_point_probabilities(&p[..len], infer);
    assert!(r.is_ok() == valid, "C19: lookup constructor accepts/refuses the wrong tables");
}

/// C03/C05/C09/C19: non-contiguous decoder (sorted cdf) and encoder (hash table) from the same
/// symbols and table agree on every symbol; unknown symbols are rejected; mismatched counts refused.
#[cfg_attr(kani, kani::proof)]
#[cfg_attr(kani, kani::unwind(8))]
pub fn non_contiguous_p4() {
    const P: usize = 4;
    let p = any_arr::<u8, 3>(); let len: usize = any(); let infer: bool = any();
    assume(len <= 3 && len >= 1);
    let syms = any_arr::<u16, 4>();
    let nsym: usize = any(); assume(nsym <= 4);
    let valid = table_valid(&p, len, infer, P as u32);
    let n = len + infer as usize;
    let d = NonContiguousCategoricalDecoderModel::<u16, u8, Vec<(u8, u16)>, P>::from_symbols_and_nonzero_fixed_point_probabilities(syms[..nsym].iter().copied(), &p[..len], infer);
    match d {
        Err(()) => assert!(!valid || nsym != n, "C19: valid table with matching symbol count refused"),
        Ok(d) => {
            assert!(valid && nsym == n, "C19: non-contiguous decoder accepted an invalid table or a symbol/probability count mismatch");
            let q: u8 = any(); assume(q < 16);
            let (s, c, pr) = d.quantile_function(q);
            assert!(c <= q && (q as u32) < c as u32 + pr.get() as u32, "C03: quantile not inside the returned interval (non-contiguous)");
            // the symbol is the label of the interval: find its index
            let c0 = ContiguousCategoricalEntropyModel::<u8, Vec<u8>, P>::from_nonzero_fixed_point_probabilities(&p[..len], infer).unwrap();
            let (i, c1, p1) = c0.quantile_function(q);
            assert!(s == syms[i] && c == c1 && pr == p1, "C05: non-contiguous decoder differs from contiguous decoder under relabelling");
        }
    }
}

/// C03/C10/C20 (bounded: one table): non-contiguous decoder model at FULL precision (P == Probability::BITS,
/// where the closing cdf entry wraps to 0): every quantile, also those of the last symbol, is
/// answered in bounds with the interval that holds it and the symbol that labels it.
#[cfg_attr(kani, kani::proof)]
#[cfg_attr(kani, kani::unwind(8))]
pub fn non_contiguous_full_precision_p8() {
    const P: usize = 8;
    let probs: [u8; 3] = [100, 100, 56];
    let syms: [u16; 3] = [10, 20, 30];
    let infer: bool = any();
    let np = if infer { 2 } else { 3 };
    let d = match NonContiguousCategoricalDecoderModel::<u16, u8, Vec<(u8, u16)>, P>::from_symbols_and_nonzero_fixed_point_probabilities(syms.iter().copied(), &probs[..np], infer) {
        Ok(d) => d, Err(()) => { assert!(false, "C19: valid full-precision table refused"); return; } };
    let q: u8 = any();
    let (s, c, pr) = d.quantile_function(q);
    let i = if q < 100 { 0 } else if q < 200 { 1 } else { 2 };
    assert!(c <= q && (q as u32) < c as u32 + pr.get() as u32, "C03/C10: quantile not inside the returned interval (non-contiguous, full precision)");
    assert!(s == syms[i] && pr.get() == probs[i] && c as u32 == 100 * i as u32, "C03/C10: non-contiguous decoder returns the wrong entry at full precision");
}

/// C05/C10/C20/C03 (bounded: one table): lookup decoder models at FULL precision (P == Probability::BITS,
/// where the closing cdf entry wraps to 0), built directly and by conversion from the searched
/// model: every quantile is answered in bounds and exactly as the searched model answers it.
#[cfg_attr(kani, kani::proof)]
#[cfg_attr(kani, kani::unwind(260))]
pub fn lookup_full_precision_p8() {
    const P: usize = 8;
    let probs: [u8; 3] = [100, 100, 56];
    let m = match ContiguousCategoricalEntropyModel::<u8, Vec<u8>, P>::from_nonzero_fixed_point_probabilities(&probs[..], false) {
        Ok(m) => m, Err(()) => { assert!(false, "C19: valid full-precision table refused"); return; } };
    let q: u8 = any();
    let want = m.quantile_function(q);
    let grp = group(3);
    if grp == 2 {
        // the lookup model seen as a searched model again, and its table rows
        let l = m.to_lookup_decoder_model();
        let back = l.as_contiguous_categorical();
        let s: usize = any();
        assert!(back.left_cumulative_and_probability(s) == m.left_cumulative_and_probability(s), "C05: lookup model viewed as a searched model differs from the model it was converted from");
        assert!(back.quantile_function(q) == want, "C05: lookup model viewed as a searched model answers a quantile differently");
        return;
    }
    if grp == 0 {
        let l = m.to_lookup_decoder_model();
        let got = l.quantile_function(q);
        assert!(got == want, "C05/C10/C03: lookup model converted from a searched model answers a quantile differently (full precision)");
    } else {
        let l = match ContiguousLookupDecoderModel::<u8, Vec<u8>, Box<[u8]>, P>::from_nonzero_fixed_point_probabilities(&probs[..], false) {
            Ok(l) => l, Err(()) => { assert!(false, "C19: valid full-precision table refused by the lookup constructor"); return; } };
        let got = l.quantile_function(q);
        assert!(got == want, "C05/C10/C03: lookup model answers a quantile differently from the searched model built by the same-named constructor (full precision)");
    }
}

/// C19/C03 (bounded: all-ones tables of 2..=5 entries at P = 2): the lazy float constructor must
/// refuse tables with more symbols than it can give one quantum each, and whatever it accepts
/// tiles [0, 2^P) and inverts exactly.
#[cfg_attr(kani, kani::proof)]
#[cfg_attr(kani, kani::unwind(8))]
pub fn lazy_table_length_p2() {
    const P: usize = 2;
    let ones: [f32; 5] = [1.0; 5];
    let n: usize = any(); assume(n >= 2 && n <= 5);
    match LazyContiguousCategoricalEntropyModel::<u8, f32, &[f32], P>::from_floating_point_probabilities_fast(&ones[..n], None) {
        Err(()) => {}
        Ok(l) => {
            cover!(true, "some table is accepted");
            assert!(n <= 4, "C19: lazy model accepted more symbols than there are quanta");
            let mut next: u32 = 0; let mut s = 0usize;
            while s < n {
                match l.left_cumulative_and_probability(s) {
                    Some((c, p)) => { assert!(c as u32 == next && p.get() != 0, "C19/C03: accepted lazy model does not tile [0,2^P) with non-empty intervals"); next = c as u32 + p.get() as u32; }
                    None => assert!(false, "C19/C03: accepted lazy model reports an in-support symbol as impossible"),
                }
                s += 1;
            }
            assert!(next == 1 << P, "C19/C03: accepted lazy model does not end at 2^P");
            let q: u8 = any(); assume(q < 4);
            let (sq, cq, pq) = l.quantile_function(q);
            assert!(sq < n && cq <= q && (q as u32) < cq as u32 + pq.get() as u32, "C19/C03: accepted lazy model does not invert its quantiles");
            assert!(l.left_cumulative_and_probability(sq) == Some((cq, pq)), "C19/C03: accepted lazy model: quantile_function disagrees with the encoder view");
        }
    }
}

/// C20 / C10 (bounded: one table, P = 3 < Probability::BITS): the non-contiguous lookup decoder over ANY
/// quantile value of the probability type, also those >= 2^P that a direct caller may pass: it may panic
/// (documented assertion) but never index its 2^P-entry table out of bounds; in-range quantiles get the
/// entry that holds them.
#[cfg_attr(kani, kani::proof)]
#[cfg_attr(kani, kani::unwind(12))]
pub fn lookup_noncontiguous_any_quantile_p3() {
    const P: usize = 3;
    let probs: [u8; 3] = [3, 3, 2];
    let syms: [u16; 3] = [10, 20, 30];
    let d = match NonContiguousLookupDecoderModel::<u16, u8, Vec<(u8, u16)>, Box<[u8]>, P>::from_symbols_and_nonzero_fixed_point_probabilities(syms.iter().copied(), &probs[..], false) {
        Ok(d) => d, Err(()) => { assert!(false, "C19: valid table refused by the non-contiguous lookup constructor"); return; } };
    let q: u8 = any();
    let (s, c, p) = d.quantile_function(q);
    let i = if q < 3 { 0 } else if q < 6 { 1 } else { 2 };
    assert!(q < 8, "C20/C10: the lookup model answered a quantile outside [0, 2^P) instead of refusing it");
    assert!(s == syms[i] && c as usize == 3 * i && p.get() == probs[i], "C10/C03: non-contiguous lookup decoder returns the wrong entry");
}

// ------------------------------------------------------------------ float tables (bounded: <= 3 entries, f32)

/// C19/C03/C20 (bounded): from_floating_point_probabilities_fast over ALL f32 bit patterns of
/// 3 entries (NaN, +-inf, negatives, denormals): Ok => model contract; never UB.
#[cfg_attr(kani, kani::proof)]
#[cfg_attr(kani, kani::unwind(6))]
pub fn fast_f32_n3_p8() {
    const P: usize = 8;
    let p: [f32; 3] = [any(), any(), any()];
    if let Ok(m) = ContiguousCategoricalEntropyModel::<u8, Vec<u8>, P>::from_floating_point_probabilities_fast(&p, None) {
        check_contiguous_model::<_, P>(&m, 3);
    }
    cover!(p[0] > 0.0 && p[1] > 0.0 && p[2] > 0.0, "all positive");
}

/// C05 (bounded): lazily evaluated model == eagerly tabulated model built by the same-named
/// constructor, for every symbol and every quantile.
#[cfg_attr(kani, kani::proof)]
#[cfg_attr(kani, kani::unwind(6))]
pub fn lazy_vs_eager_f32_n3_p8() {
    const P: usize = 8;
    let p: [f32; 3] = [any(), any(), any()];
    assume(p[0] >= 0.0 && p[1] >= 0.0 && p[2] >= 0.0);
    let e = ContiguousCategoricalEntropyModel::<u8, Vec<u8>, P>::from_floating_point_probabilities_fast(&p, None);
    let l = LazyContiguousCategoricalEntropyModel::<u8, f32, &[f32], P>::from_floating_point_probabilities_fast(&p[..], None);
    assert!(e.is_ok() == l.is_ok(), "C05/C19: lazy and eager constructors disagree on accepting the table");
    if let (Ok(e), Ok(l)) = (e, l) {
        let s: usize = any();
        assert!(l.left_cumulative_and_probability(s) == e.left_cumulative_and_probability(s), "C05: lazy model differs from eager model (encoder view)");
        let q: u8 = any();
        assert!(l.quantile_function(q) == e.quantile_function(q), "C05: lazy model differs from eager model (decoder view)");
    }
}

// ------------------------------------------------------------------ quantiser

/// CDF contract stub: an arbitrary non-decreasing function into [0,1], functional on the points
/// queried (each new query point gets a fresh value consistent with monotonicity).
pub struct StubCdf { pub pts: RefCell<[(f64, f64); 6]>, pub n: RefCell<usize>, pub inv_hint: f64 }
impl StubCdf { pub fn new(h: f64) -> Self { StubCdf { pts: RefCell::new([(0.0, 0.0); 6]), n: RefCell::new(0), inv_hint: h } } }
impl Distribution for StubCdf {
    type Value = f64;
    fn distribution(&self, x: f64) -> f64 {
        let mut pts = self.pts.borrow_mut(); let mut n = self.n.borrow_mut();
        let mut i = 0; while i < *n { if pts[i].0 == x { return pts[i].1; } i += 1; }
        let y: f64 = any();
        assume(y >= 0.0 && y <= 1.0);
        let mut j = 0; while j < *n { if pts[j].0 < x { assume(pts[j].1 <= y); } else { assume(y <= pts[j].1); } j += 1; }
        assert!(*n < 6, "harness: StubCdf table too small");
        pts[*n] = (x, y); *n += 1; y
    }
}
impl Inverse for StubCdf { fn inverse(&self, _p: f64) -> f64 { self.inv_hint } }

/// the all-mass-to-the-right CDF: every symbol gets exactly its one leaked quantum
pub struct ZeroCdf;
impl Distribution for ZeroCdf { type Value = f64; fn distribution(&self, _x: f64) -> f64 { 0.0 } }
impl Inverse for ZeroCdf { fn inverse(&self, _p: f64) -> f64 { 0.0 } }

macro_rules! quantizer_new_harness {
    ($name:ident, $Sym:ty, $Pr:ty, $P:expr) => {
        /// C19: LeakyQuantizer::new over ALL ranges of the symbol type: either panics or yields a
        /// quantiser under which every symbol of the support owns a distinct non-empty interval
        /// (checked with the zero CDF, for which cum(s) must equal s - min exactly).
        #[cfg_attr(kani, kani::proof)]
        #[cfg_attr(kani, kani::unwind(4))]
        pub fn $name() {
            let lo: $Sym = any(); let hi: $Sym = any();
            let q = LeakyQuantizer::<f64, $Sym, $Pr, $P>::new(lo..=hi);
            assert!(lo < hi, "C19: LeakyQuantizer::new accepted an empty or single-element support");
            let size_minus_one = (hi as i64 - lo as i64) as u64;
            assert!(size_minus_one < (1u64 << $P), "C19: LeakyQuantizer::new accepted a support with more symbols than quanta");
            let m = q.quantize(ZeroCdf);
            let s: $Sym = any(); assume(s >= lo && s <= hi);
            let (c, p) = m.left_cumulative_and_probability(s).unwrap();
            assert!(c as u64 == (s as i64 - lo as i64) as u64, "C19/C03: quantised model assigns overlapping intervals (support size narrowed)");
            assert!(if s == hi { c as u64 + p.get() as u64 == (1u64 << $P) } else { p.get() == 1 }, "C03: leaked quantum missing");
        }
    };
}
quantizer_new_harness!(quantizer_new_i8_u8_p8, i8, u8, 8);
quantizer_new_harness!(quantizer_new_i16_u8_p8, i16, u8, 8);
quantizer_new_harness!(quantizer_new_i16_u8_p5, i16, u8, 5);
quantizer_new_harness!(quantizer_new_u8_u16_p12, u8, u16, 12);
quantizer_new_harness!(quantizer_new_i16_u16_p16, i16, u16, 16);

/// C03/C09 (bounded: free_weight a power of two): encoder view of a quantised model under ANY
/// monotone CDF: consecutive, non-empty, starts at 0, ends at 2^P; outside the support => None.
#[cfg_attr(kani, kani::proof)]
#[cfg_attr(kani, kani::unwind(8))]
pub fn quantizer_encoder_view_i8_u8_p8() {
    let q = LeakyQuantizer::<f64, i8, u8, 8>::new(-64..=63);
    let m = q.quantize(StubCdf::new(0.0));
    let s: i8 = any();
    match m.left_cumulative_and_probability(s) {
        None => assert!(s < -64 || s > 63, "C03: in-support symbol reported impossible by the quantised model"),
        Some((c0, p0)) => {
            assert!(s >= -64 && s <= 63, "C09: quantised model accepted a symbol outside its support");
            if s == -64 { assert!(c0 == 0, "C03: first symbol must start at 0"); }
            if s == 63 { assert!(c0 as u32 + p0.get() as u32 == 256, "C03: last symbol must end at 2^P"); }
            else { let (c1, _) = m.left_cumulative_and_probability(s + 1).unwrap(); assert!(c0 as u32 + p0.get() as u32 == c1 as u32, "C03: quantised intervals not consecutive"); }
        }
    }
}

/// C05 (bounded): the k-th row of the quantised model's symbol table is the encoder view of the
/// k-th symbol (first three rows, any monotone CDF).
#[cfg_attr(kani, kani::proof)]
#[cfg_attr(kani, kani::unwind(8))]
pub fn quantizer_symbol_table_i8_u8_p8() {
    let q = LeakyQuantizer::<f64, i8, u8, 8>::new(-64..=63);
    let m = q.quantize(StubCdf::new(0.0));
    let mut it = m.symbol_table();
    let mut k = 0i8;
    while k < 2 {
        let row = it.next().unwrap();
        let (c, p) = m.left_cumulative_and_probability(-64 + k).unwrap();
        assert!(row == (-64 + k, c, p), "C05: quantised symbol_table row differs from the encoder view");
        k += 1;
    }
}

/// C05 + C03 (bounded: one concrete step CDF): a quantised model over a SIGNED symbol type that is
/// narrower than the probability type, with a support wider than half the symbol type
/// (-100..=100 in i8, u16 probabilities): `symbol - min` exceeds i8::MAX for the upper rows, so
/// every place that turns it into a probability must mask the sign extension.  All 201 rows of
/// symbol_table equal the encoder view, and the rows tile [0, 2^12) consecutively.
#[cfg_attr(kani, kani::proof)]
#[cfg_attr(kani, kani::unwind(204))]
pub fn quantizer_symbol_table_i8_u16_wide() {
    let q = LeakyQuantizer::<f64, i8, u16, 12>::new(-100..=100);
    let m = q.quantize(StepCdf { t: 0.0, hint: 0.0 });
    let mut it = m.symbol_table();
    let mut k: i16 = -100; let mut next: u32 = 0;
    while k <= 100 {
        let row = match it.next() { Some(r) => r, None => { assert!(false, "C05: quantised symbol_table ends before the support does"); return; } };
        match m.left_cumulative_and_probability(k as i8) {
            Some((c, p)) => {
                assert!(row == (k as i8, c, p), "C05: quantised symbol_table row differs from the encoder view");
                assert!(c as u32 == next && p.get() != 0, "C03: quantised intervals are not consecutive and non-empty");
                next = c as u32 + p.get() as u32;
            }
            None => assert!(false, "C03: quantised model reports an in-support symbol as impossible"),
        }
        k += 1;
    }
    assert!(next == 1 << 12, "C03: quantised intervals do not end at 2^P");
    assert!(it.next().is_none(), "C05: quantised symbol_table continues past the support");
}

/// C03 (complete for this support and step CDFs): encoder view of a quantised model over a signed
/// symbol type narrower than the probability type, support wider than half the symbol type
/// (-100..=100 in i8, u16 probabilities): for EVERY symbol of the support and every step threshold,
/// the interval is non-empty, starts at 0 for the first symbol, ends at 2^P for the last, and the
/// next symbol's interval starts where it ends; symbols outside the support are impossible.
#[cfg_attr(kani, kani::proof)]
#[cfg_attr(kani, kani::unwind(4))]
pub fn quantizer_view_i8_u16_wide() {
    let t: i16 = any();
    let m = LeakyQuantizer::<f64, i8, u16, 12>::new(-100..=100).quantize(StepCdf { t: t as f64, hint: 0.0 });
    let s: i8 = any();
    match m.left_cumulative_and_probability(s) {
        None => assert!(s < -100 || s > 100, "C03: quantised model reports an in-support symbol as impossible"),
        Some((c, p)) => {
            assert!(s >= -100 && s <= 100, "C09/C03: quantised model accepted a symbol outside its support");
            let end = c as u32 + p.get() as u32;
            assert!(p.get() != 0 && end <= 1 << 12 && (p.get() as u32) < 1 << 12, "C03: quantised model entry is not a proper sub-interval of [0,2^P)");
            if s == -100 { assert!(c == 0, "C03: first symbol must start at 0"); }
            if s == 100 { assert!(end == 1 << 12, "C03: last symbol must end at 2^P"); }
            else if s >= -100 && s < 100 { assert!(m.left_cumulative_and_probability(s + 1).map(|x| x.0 as u32) == Some(end), "C03: quantised intervals not consecutive"); }
        }
    }
    cover!(s > 27, "symbol - min exceeds i8::MAX");
}

/// C18: floating_point_probability(symbol) * 2^P == probability exactly (one exact power-of-two
/// division), for every entry of every uniform model; 0.0 outside the support.
#[cfg_attr(kani, kani::proof)]
#[cfg_attr(kani, kani::unwind(4))]
pub fn float_view_uniform_u16_p12() {
    let range: usize = any(); assume(range >= 2 && range <= 4096);
    let m = UniformModel::<u16, 12>::new(range);
    let s: usize = any();
    let f: f32 = m.floating_point_probability::<f32>(s);
    match m.left_cumulative_and_probability(s) {
        Some((_, p)) => assert!(f * 4096.0 == p.get() as f32, "C18: floating_point_probability is not probability / 2^P"),
        None => assert!(f == 0.0, "C18: floating_point_probability of an impossible symbol must be 0"),
    }
}

/// C09: a quantised model rejects EVERY symbol value outside its support, also when the symbol
/// type is wider than the probability type (values that would alias after narrowing).
#[cfg_attr(kani, kani::proof)]
#[cfg_attr(kani, kani::unwind(4))]
pub fn quantizer_reject_i16_u8_p8() {
    let lo: i16 = any(); let hi: i16 = any();
    assume(lo < hi && (hi as i32 - lo as i32) < 256);
    let m = LeakyQuantizer::<f64, i16, u8, 8>::new(lo..=hi).quantize(ZeroCdf);
    let s: i16 = any();
    assert!(m.left_cumulative_and_probability(s).is_some() == (s >= lo && s <= hi), "C09/C03: quantised model accepts exactly the symbols of its support (no aliasing after narrowing)");
    cover!(s > hi && ((s as i32 - lo as i32) & 0xff) <= (hi as i32 - lo as i32), "out-of-support symbol that aliases an in-support one modulo 2^8");
}

/// step-shaped CDF: 0 left of the threshold, 1 from it on (a valid monotone CDF; one of the
/// families C03 names).  Makes the quantiser an integer program: every float product is 0 or free_weight.
pub struct StepCdf { pub t: f64, pub hint: f64 }
impl Distribution for StepCdf { type Value = f64; fn distribution(&self, x: f64) -> f64 { if x < self.t { 0.0 } else { 1.0 } } }
impl Inverse for StepCdf { fn inverse(&self, _p: f64) -> f64 { self.hint } }

macro_rules! quantizer_search_harness {
    ($name:ident, $Sym:ty, $unw:expr) => {
        /// C03/C10/C20: quantile_function of a quantised model (the exponential + binary search over the
        /// support) for EVERY support of the symbol type, every step-shaped CDF, EVERY inverse hint
        /// (right or wrong) and every quantile: terminates, returns a symbol of the support whose
        /// interval holds the quantile, and agrees with the encoder view.  Covers supports that touch
        /// the minimum / maximum of the symbol type (wrap-around of the search step).
        #[cfg_attr(kani, kani::proof)]
        #[cfg_attr(kani, kani::unwind($unw))]
        pub fn $name() {
            let lo: $Sym = any(); let hi: $Sym = any();
            assume(lo < hi && (hi as i32 - lo as i32) <= 255);
            let t: i16 = any(); let hint: i16 = any();
            let m = LeakyQuantizer::<f64, $Sym, u8, 8>::new(lo..=hi).quantize(StepCdf { t: t as f64, hint: hint as f64 });
            let q: u8 = any();
            let (s, c, p) = m.quantile_function(q);
            assert!(s >= lo && s <= hi, "C10/C03: quantised model decoded a symbol outside its support");
            assert!(c <= q && (q as u32) < c as u32 + p.get() as u32, "C03: quantile not inside the interval returned by the quantised model");
            assert!(m.left_cumulative_and_probability(s) == Some((c, p)), "C03: quantised quantile_function disagrees with the encoder view");
            cover!(hi == <$Sym>::MAX, "support touches the maximum of the symbol type");
            cover!(lo == <$Sym>::MIN, "support touches the minimum of the symbol type");
        }
    };
}
quantizer_search_harness!(quantizer_search_u8, u8, 40);
quantizer_search_harness!(quantizer_search_i8, i8, 40);

/// C05 (bounded: 2-entry tables at full precision and below): generic conversions of a model
/// (to_generic_decoder_model, to_generic_lookup_decoder_model, to_generic_encoder_model) assign
/// every quantile / symbol the same triple as the original.
macro_rules! generic_conversion_harness {
    ($name:ident, $ename:ident, $P:expr) => {
        /// C05 (bounded: 2-symbol tables): to_generic_decoder_model assigns every quantile the same
        /// triple as the original model.
        #[cfg_attr(kani, kani::proof)]
        #[cfg_attr(kani, kani::unwind(8))]
        pub fn $name() {
            const P: usize = $P;
            let a: u8 = any(); assume(a >= 1 && (a as u32) < (1u32 << P));
            let m = match ContiguousCategoricalEntropyModel::<u8, Vec<u8>, P>::from_nonzero_fixed_point_probabilities(&[a], true) { Ok(m) => m, Err(()) => { assert!(false, "C19: valid 2-symbol table refused"); return; } };
            let d = m.to_generic_decoder_model();
            let q: u8 = any(); assume((q as u32) < (1u32 << P));
            assert!(d.quantile_function(q) == m.quantile_function(q), "C05: to_generic_decoder_model differs from the original model");
        }
        /// C05 (bounded: 2-symbol tables): to_generic_encoder_model (hash table) assigns every symbol
        /// the same entry as the original model.
        #[cfg_attr(kani, kani::proof)]
        #[cfg_attr(kani, kani::unwind(8))]
        pub fn $ename() {
            const P: usize = $P;
            let a: u8 = any(); assume(a >= 1 && (a as u32) < (1u32 << P));
            let m = match ContiguousCategoricalEntropyModel::<u8, Vec<u8>, P>::from_nonzero_fixed_point_probabilities(&[a], true) { Ok(m) => m, Err(()) => return };
            let e = m.to_generic_encoder_model();
            let s: usize = any();
            assert!(e.left_cumulative_and_probability(s) == m.left_cumulative_and_probability(s), "C05: to_generic_encoder_model differs from the original model");
        }
    };
}
generic_conversion_harness!(generic_decoder_p8, generic_encoder_p8, 8);
generic_conversion_harness!(generic_decoder_p5, generic_encoder_p5, 5);

/// C05/C03 (bounded: 3 entries drawn from {0, 0.5, 1, 3}): lazy model == eager model for every
/// symbol and quantile, including tables with leading / trailing zero entries.
#[cfg_attr(kani, kani::proof)]
#[cfg_attr(kani, kani::unwind(6))]
pub fn lazy_vs_eager_small_p8() {
    const P: usize = 8;
    const V: [f32; 4] = [0.0, 0.5, 1.0, 3.0];
    let i: [u8; 3] = [any(), any(), any()];
    assume(i[0] < 4 && i[1] < 4 && i[2] < 4);
    let p: [f32; 3] = [V[i[0] as usize], V[i[1] as usize], V[i[2] as usize]];
    let e = ContiguousCategoricalEntropyModel::<u8, Vec<u8>, P>::from_floating_point_probabilities_fast(&p, None);
    let l = LazyContiguousCategoricalEntropyModel::<u8, f32, &[f32], P>::from_floating_point_probabilities_fast(&p[..], None);
    assert!(e.is_ok() == l.is_ok(), "C05/C19: lazy and eager constructors disagree on accepting the table");
    if let (Ok(e), Ok(l)) = (e, l) {
        let s: usize = any();
        let q: u8 = any();
        if group(2) == 0 {
            assert!(l.left_cumulative_and_probability(s) == e.left_cumulative_and_probability(s), "C05: lazy model differs from eager model (encoder view)");
            assert!(l.quantile_function(q) == e.quantile_function(q), "C05: lazy model differs from eager model (decoder view)");
            return;
        }
        // the lazy model on its own terms (C03 / C10): the decoded symbol is in the support, its interval holds
        // the quantile and is the one the encoder view reports
        assert!(l.left_cumulative_and_probability(s).is_some() == (s < 3), "C09/C03: lazy model must accept exactly the symbols of its support");
        let (sq, cq, pq) = l.quantile_function(q);
        assert!(sq < 3, "C10/C03: lazy model decoded a symbol outside its support");
        assert!(cq <= q && (q as u32) < cq as u32 + pq.get() as u32, "C03/C10: quantile not inside the interval returned by the lazy model");
        assert!(l.left_cumulative_and_probability(sq) == Some((cq, pq)), "C03/C10: lazy quantile_function disagrees with its encoder view");
        cover!(p[0] == 0.0, "leading zero entry");
    }
}

macro_rules! quantizer_search_fixed {
    ($name:ident, $Sym:ty, $lo:expr, $hi:expr, $unw:expr) => {
        /// C03/C10/C20 (bounded: fixed support $lo..=$hi, step-shaped CDFs): quantile_function of a
        /// quantised model for every step threshold, EVERY inverse hint and every quantile.
        #[cfg_attr(kani, kani::proof)]
        #[cfg_attr(kani, kani::unwind($unw))]
        pub fn $name() {
            let lo: $Sym = $lo; let hi: $Sym = $hi;
            let t: i16 = any(); let hint: i16 = any();
            let m = LeakyQuantizer::<f64, $Sym, u8, 8>::new(lo..=hi).quantize(StepCdf { t: t as f64, hint: hint as f64 });
            let q: u8 = any();
            let (s, c, p) = m.quantile_function(q);
            assert!(s >= lo && s <= hi, "C10/C03: quantised model decoded a symbol outside its support");
            assert!(c <= q && (q as u32) < c as u32 + p.get() as u32, "C03: quantile not inside the interval returned by the quantised model");
            assert!(m.left_cumulative_and_probability(s) == Some((c, p)), "C03: quantised quantile_function disagrees with the encoder view");
        }
    };
}
quantizer_search_fixed!(quantizer_search_u8_full, u8, 0, 255, 40);
quantizer_search_fixed!(quantizer_search_u8_top, u8, 100, 255, 40);
quantizer_search_fixed!(quantizer_search_i8_full, i8, -128, 127, 40);
quantizer_search_fixed!(quantizer_search_i8_mid, i8, -10, 20, 40);

/// C10 ("never ... loops") / C03, termination contract: on a WIDE support of a signed symbol type
/// (-100..=100 in i8: wider than half the type, so the exponential search step reaches the sign
/// bit) quantile_function returns, within the harness' unwind bound, for every step threshold,
/// every quantile and inverse hints below / inside / above the support.  The unwind bound (40) is
/// the contract: a terminating search needs <= BITS doublings, <= BITS halvings of the step in the
/// inner loop and <= BITS binary-search steps per phase, i.e. < 3 * 8 + 2 iterations of any loop.
#[cfg_attr(kani, kani::proof)]
#[cfg_attr(kani, kani::unwind(40))]
pub fn quantizer_search_i8_wide() {
    let lo: i8 = -100; let hi: i8 = 100;
    let t: i16 = any();
    let h: u8 = any(); assume(h < 3);
    let hint: f64 = if h == 0 { -200.0 } else if h == 1 { 0.0 } else { 200.0 };
    let m = LeakyQuantizer::<f64, i8, u8, 8>::new(lo..=hi).quantize(StepCdf { t: t as f64, hint });
    let q: u8 = any();
    let (s, c, p) = m.quantile_function(q);
    assert!(s >= lo && s <= hi, "C10/C03: quantised model decoded a symbol outside its support");
    assert!(c <= q && (q as u32) < c as u32 + p.get() as u32, "C03: quantile not inside the interval returned by the quantised model");
    assert!(m.left_cumulative_and_probability(s) == Some((c, p)), "C03: quantised quantile_function disagrees with the encoder view");
}

/// quick-tier variant of quantizer_search_i8_wide: all probability mass beyond one end of the support
/// and the inverse hint at the other end (the searches that must cross the whole support with the
/// exponentially growing step); every quantile.
#[cfg_attr(kani, kani::proof)]
#[cfg_attr(kani, kani::unwind(24))]
pub fn quantizer_search_i8_wide_tails() {
    let lo: i8 = -100; let hi: i8 = 100;
    let up: bool = any();
    let (t, hint) = if up { (1000.0, -200.0) } else { (-1000.0, 200.0) };
    let m = LeakyQuantizer::<f64, i8, u8, 8>::new(lo..=hi).quantize(StepCdf { t, hint });
    let q: u8 = any();
    let (s, c, p) = m.quantile_function(q);
    assert!(s >= lo && s <= hi, "C10/C03: quantised model decoded a symbol outside its support");
    assert!(c <= q && (q as u32) < c as u32 + p.get() as u32, "C03: quantile not inside the interval returned by the quantised model");
    assert!(m.left_cumulative_and_probability(s) == Some((c, p)), "C03: quantised quantile_function disagrees with the encoder view");
}

/// C10 / C03 (bounded: step CDFs, exact inverse hint): decoding with a quantised model over a signed
/// symbol type narrower than the probability type and a support wider than half the symbol type:
/// for every symbol of the support, the quantile at the start of its interval decodes back to it
/// without overflow.
#[cfg_attr(kani, kani::proof)]
#[cfg_attr(kani, kani::unwind(12))]
pub fn quantizer_decode_i8_u16_wide() {
    let t: i16 = any();
    let s: i8 = any(); assume(s >= -100 && s <= 100);
    let m = LeakyQuantizer::<f64, i8, u16, 12>::new(-100..=100).quantize(StepCdf { t: t as f64, hint: s as f64 });
    let (c, p) = match m.left_cumulative_and_probability(s) { Some(x) => x, None => { assert!(false, "C03: quantised model reports an in-support symbol as impossible"); return; } };
    let (sq, cq, pq) = m.quantile_function(c);
    assert!(sq == s && cq == c && pq == p, "C10/C03: quantised model does not decode the start of a symbol's interval back to that symbol");
    cover!(s > 27, "symbol - min exceeds i8::MAX");
}

/// C20: models are generic over caller-supplied types; a caller's `AsRef<[F]>` that answers
/// differently from call to call, or a `Distribution` that is not monotone, is safe code and must
/// lead to a wrong answer or a panic at worst, never to an unchecked access out of bounds or a zero
/// inside a non-zero probability.
pub struct FlakyPmf { pub calls: core::cell::Cell<u8>, pub long: [f32; 3], pub short: [f32; 1] }
impl AsRef<[f32]> for FlakyPmf {
    fn as_ref(&self) -> &[f32] { let k = self.calls.get(); self.calls.set(k.wrapping_add(1)); if k % 2 == 0 { &self.long } else { &self.short } }
}
#[cfg_attr(kani, kani::proof)]
#[cfg_attr(kani, kani::unwind(8))]
pub fn lazy_flaky_pmf() {
    const P: usize = 8;
    let pmf = FlakyPmf { calls: core::cell::Cell::new(any()), long: [1.0, 1.0, 2.0], short: [1.0] };
    if let Ok(l) = LazyContiguousCategoricalEntropyModel::<u8, f32, FlakyPmf, P>::from_floating_point_probabilities_fast(pmf, None) {
        let s: usize = any();
        if group(2) == 0 { let _ = l.left_cumulative_and_probability(s); } else { let q: u8 = any(); let _ = l.quantile_function(q); }
    }
}
/// non-monotone "CDF": arbitrary values at the points queried
pub struct WildCdf { pub a: f64, pub b: f64, pub cut: f64 }
impl Distribution for WildCdf { type Value = f64; fn distribution(&self, x: f64) -> f64 { if x < self.cut { self.a } else { self.b } } }
impl Inverse for WildCdf { fn inverse(&self, _p: f64) -> f64 { self.cut } }
#[cfg_attr(kani, kani::proof)]
#[cfg_attr(kani, kani::unwind(8))]
pub fn quantizer_wild_distribution() {
    // support of 128 symbols: free weight 2^7, so that a dip of 2^-7 in the "CDF" cancels exactly the one quantum of leakiness
    const V: [f64; 4] = [0.0, 0.4921875, 0.5, 1.0];
    let i: u8 = any(); let j: u8 = any(); assume(i < 4 && j < 4);
    let cut: i8 = any();
    let m = LeakyQuantizer::<f64, i8, u8, 8>::new(-64..=63).quantize(WildCdf { a: V[i as usize], b: V[j as usize], cut: cut as f64 + 0.5 });
    let s: i8 = any();
    if let Some((_c, p)) = m.left_cumulative_and_probability(s) { assert!(p.get() != 0, "C20: a zero value inside a non-zero probability type (quantised model over a non-monotone distribution)"); }
    cover!(i > j, "decreasing step");
}

/// C03 / C20 (bounded: ranges 2, 3, 7, 1000, 65536; a symbolic range did not finish in 25 min): uniform models at PRECISION == usize::BITS == 64, where 2^P wraps in
/// every integer type involved: bins are non-empty, consecutive, start at 0 and end at 2^64 (wrapped to 0).
#[cfg_attr(kani, kani::proof)]
#[cfg_attr(kani, kani::unwind(4))]
pub fn uniform_u64_p64_new() {
    const R: [usize; 5] = [2, 3, 7, 1000, 65536];
    let ri: u8 = any(); assume(ri < 5);
    let range: usize = R[ri as usize];
    let m = UniformModel::<u64, 64>::new(range);
    let s: usize = any(); assume(s < range);
    let (c, p) = match m.left_cumulative_and_probability(s) { Some(x) => x, None => { assert!(false, "C03: uniform model reports an in-support symbol as impossible"); return; } };
    assert!(p.get() != 0, "C20/C03: a zero value inside a non-zero probability type (uniform model at full 64-bit precision)");
    if s == 0 { assert!(c == 0, "C03: first bin must start at 0"); }
    if s + 1 == range { assert!(c.wrapping_add(p.get()) == 0, "C03: last bin must end at 2^64"); }
    else { assert!(m.left_cumulative_and_probability(s + 1).map(|x| x.0) == Some(c + p.get()), "C03: uniform bins not consecutive"); }
    assert!(m.left_cumulative_and_probability(range).is_none(), "C09/C03: uniform model accepted a symbol outside its support");
}

// (a lazy-vs-eager harness over tables [a, 1, 0] with one symbolic f32 weight did not finish in 25 min: not kept)

/// C19: float table constructors refuse NaN and negative entries whatever normalisation the caller
/// supplies (3 symbolic f32 entries, symbolic Option<normalization>).
#[cfg_attr(kani, kani::proof)]
#[cfg_attr(kani, kani::unwind(6))]
pub fn fast_f32_rejects_bad_entries() {
    const P: usize = 8;
    let p: [f32; 3] = [any(), any(), any()];
    let norm: Option<f32> = if any::<bool>() { Some(any()) } else { None };
    let bad = !(p[0] >= 0.0) || !(p[1] >= 0.0) || !(p[2] >= 0.0);
    assume(bad);
    assert!(ContiguousCategoricalEntropyModel::<u8, Vec<u8>, P>::from_floating_point_probabilities_fast(&p, norm).is_err(), "C19: float table with a NaN or negative entry accepted");
    cover!(norm.is_some() && p[1].is_nan(), "NaN entry with a caller-supplied normalisation");
}

/// C19: non-contiguous float constructors (decoder and encoder variants) refuse a symbol count
/// that differs from the number of probabilities instead of truncating silently.
#[cfg_attr(kani, kani::proof)]
#[cfg_attr(kani, kani::unwind(8))]
pub fn non_contiguous_fast_counts() {
    const P: usize = 8;
    let probs: [f32; 3] = [1.0, 1.0, 2.0];
    let syms: [u16; 4] = [10, 20, 30, 40];
    let nsym: usize = any(); assume(nsym >= 1 && nsym <= 4);
    let d = NonContiguousCategoricalDecoderModel::<u16, u8, Vec<(u8, u16)>, P>::from_symbols_and_floating_point_probabilities_fast(syms[..nsym].iter().copied(), &probs, None);
    assert!(d.is_ok() == (nsym == 3), "C19: non-contiguous decoder model accepted a symbol count that differs from the number of probabilities");
    if let Ok(d) = d {
        let q: u8 = any();
        let (_s, c, p) = d.quantile_function(q);
        assert!(c <= q && (q as u32) < c as u32 + p.get() as u32 && (p.get() as u32) < 256, "C03: non-contiguous model entry is not a proper sub-interval");
    }
}

/// C19: the lazy float constructor refuses NaN and negative entries as well (it returns a model
/// whose probabilities are computed later: accepting such a table yields wrapped probabilities).
#[cfg_attr(kani, kani::proof)]
#[cfg_attr(kani, kani::unwind(6))]
pub fn lazy_f32_rejects_bad_entries() {
    const P: usize = 8;
    let p: [f32; 3] = [any(), any(), any()];
    let norm: Option<f32> = if any::<bool>() { Some(any()) } else { None };
    let bad = !(p[0] >= 0.0) || !(p[1] >= 0.0) || !(p[2] >= 0.0);
    assume(bad);
    assert!(LazyContiguousCategoricalEntropyModel::<u8, f32, &[f32], P>::from_floating_point_probabilities_fast(&p[..], norm).is_err(), "C19: lazy float table with a NaN or negative entry accepted");
}

/// C19/C03/C20 (bounded): as fast_f32_n3_p8 with 2 entries (all f32 bit patterns) - quick tier.
#[cfg_attr(kani, kani::proof)]
#[cfg_attr(kani, kani::unwind(6))]
pub fn fast_f32_n2_p8() {
    const P: usize = 8;
    let p: [f32; 2] = [any(), any()];
    if let Ok(m) = ContiguousCategoricalEntropyModel::<u8, Vec<u8>, P>::from_floating_point_probabilities_fast(&p, None) {
        check_contiguous_model::<_, P>(&m, 2);
    }
    cover!(p[0] > 0.0 && p[1] > 0.0, "all positive");
}

macro_rules! lookup_noncontiguous_counts {
    ($name:ident, $NSYM:expr) => {
        /// C19/C20/C10: the non-contiguous LOOKUP decoder's float constructor refuses a symbol count
        /// ($NSYM here) that differs from the number of probabilities (3); an accepted model answers
        /// every quantile in bounds.
        #[cfg_attr(kani, kani::proof)]
        #[cfg_attr(kani, kani::unwind(12))]
        pub fn $name() {
            const P: usize = 3;
            let probs: [f32; 3] = [1.0, 1.0, 2.0];
            let syms: [u16; 4] = [10, 20, 30, 40];
            let d = NonContiguousLookupDecoderModel::<u16, u8, Vec<(u8, u16)>, Box<[u8]>, P>::from_symbols_and_floating_point_probabilities_fast(syms[..$NSYM].iter().copied(), &probs, None);
            assert!(d.is_ok() == ($NSYM == 3), "C19: non-contiguous lookup model accepted a symbol count that differs from the number of probabilities");
            if let Ok(d) = d {
                let q: u8 = any(); assume(q < 8);
                let (_s, c, p) = d.quantile_function(q);
                assert!(c <= q && (q as u32) < c as u32 + p.get() as u32, "C03/C10: lookup model returned an interval that does not hold the quantile");
            }
        }
    };
}
lookup_noncontiguous_counts!(lookup_noncontiguous_fast_counts_2, 2);
lookup_noncontiguous_counts!(lookup_noncontiguous_fast_counts_3, 3);
lookup_noncontiguous_counts!(lookup_noncontiguous_fast_counts_4, 4);

/// C19/C03/C20 (bounded): the default preset's shape (u32 probabilities, 24 bits) with f32 weights,
/// where the free weight is as wide as the float mantissa: 2 entries, all f32 bit patterns.
#[cfg_attr(kani, kani::proof)]
#[cfg_attr(kani, kani::unwind(6))]
pub fn fast_f32_n2_u32_p24() {
    const P: usize = 24;
    let p: [f32; 2] = [any(), any()];
    if let Ok(m) = ContiguousCategoricalEntropyModel::<u32, Vec<u32>, P>::from_floating_point_probabilities_fast(&p, None) {
        let (c0, p0) = m.left_cumulative_and_probability(0usize).unwrap();
        let (c1, p1) = m.left_cumulative_and_probability(1usize).unwrap();
        assert!(c0 == 0 && p0.get() >= 1 && c1 == p0.get() && p1.get() >= 1 && (c1 as u64) + (p1.get() as u64) == (1u64 << P), "C03: float table at the default preset's widths is not a valid model");
    }
}

macro_rules! quantizer_search_small {
    ($name:ident, $Sym:ty, $unw:expr) => {
        /// C03/C10/C20 (bounded: supports of <= 8 symbols placed ANYWHERE in the symbol type, incl. at
        /// its minimum / maximum; step-shaped CDFs): quantile_function of a quantised model for every
        /// step threshold, EVERY inverse hint (right or wrong) and every quantile: terminates, returns
        /// a symbol of the support whose interval holds the quantile, agrees with the encoder view.
        #[cfg_attr(kani, kani::proof)]
        #[cfg_attr(kani, kani::unwind($unw))]
        pub fn $name() {
            let lo: $Sym = any(); let len: u8 = any();
            assume(len >= 1 && len <= 7 && (lo as i32 + len as i32) <= <$Sym>::MAX as i32);
            let hi: $Sym = (lo as i32 + len as i32) as $Sym;
            let t: i16 = any(); let hint: i16 = any();
            let m = LeakyQuantizer::<f64, $Sym, u8, 8>::new(lo..=hi).quantize(StepCdf { t: t as f64, hint: hint as f64 });
            let q: u8 = any();
            let (s, c, p) = m.quantile_function(q);
            assert!(s >= lo && s <= hi, "C10/C03: quantised model decoded a symbol outside its support");
            assert!(c <= q && (q as u32) < c as u32 + p.get() as u32, "C03: quantile not inside the interval returned by the quantised model");
            assert!(m.left_cumulative_and_probability(s) == Some((c, p)), "C03: quantised quantile_function disagrees with the encoder view");
            cover!(hi == <$Sym>::MAX, "support touches the maximum of the symbol type");
            cover!(lo == <$Sym>::MIN, "support touches the minimum of the symbol type");
        }
    };
}
quantizer_search_small!(quantizer_search_small_u8, u8, 14);
quantizer_search_small!(quantizer_search_small_i8, i8, 14);

/// C18 (diagnostics, sanity contract only): entropy_base2 of a model is a finite number in [0, P]
/// also at PRECISION == Probability::BITS (the exact value involves log2 and is not decided here).
#[cfg_attr(kani, kani::proof)]
#[cfg_attr(kani, kani::unwind(6))]
pub fn entropy_is_finite_u8_p8() {
    let range: usize = any(); assume(range >= 2 && range <= 3);
    let m = UniformModel::<u8, 8>::new(range);
    let h: f64 = m.entropy_base2::<f64>();
    assert!(h.is_finite(), "C18: entropy_base2 is not finite");
    assert!(h >= -0.001 && h <= 8.001, "C18: entropy_base2 outside [0, PRECISION]");
}

fn near(a: f64, b: f64) -> bool { a.is_finite() && a - b < 1e-6 && b - a < 1e-6 }

/// C18 (diagnostics; bounded: one concrete 3-symbol model with unequal bins, u8, P = 8 =
/// Probability::BITS, five concrete reference distributions incl. exact zeros and a subnormal
/// entry): entropy, cross entropy and KL divergence in both directions equal their textbook
/// definitions on the exact fixed-point probabilities 85/256, 85/256, 86/256 up to 1e-6.
#[cfg_attr(kani, kani::proof)]
#[cfg_attr(kani, kani::unwind(6))]
pub fn diagnostics_concrete_u8_p8() {
    let m = UniformModel::<u8, 8>::new(3);
    match group(4) {
        0 => {
            assert!(near(m.entropy_base2::<f64>(), 1.5849405154383214), "C18: entropy_base2 differs from -sum self[i] log2 self[i]");
        }
        1 => {
            let p = [0.5f64, 0.25, 0.25];
            assert!(near(m.cross_entropy_base2::<f64>(p), 1.5863906092211992), "C18: cross_entropy_base2 differs from -sum p[i] log2 self[i]");
            assert!(near(m.kl_divergence_base2::<f64>(p), 0.08639060922119922), "C18: kl_divergence_base2 differs from sum p[i] log2(p[i] / self[i])");
        }
        2 => {
            let p = [0.5f64, 0.25, 0.25];
            assert!(near(m.reverse_cross_entropy_base2::<f64>(p), 1.66796875), "C18: reverse_cross_entropy_base2 differs from -sum self[i] log2 p[i]");
            assert!(near(m.reverse_kl_divergence_base2::<f64>(p), 0.0830282345616786), "C18: reverse_kl_divergence_base2 differs from sum self[i] log2(self[i] / p[i])");
        }
        _ => {
            // exact zeros contribute nothing; a subnormal entry contributes (almost) nothing
            let p = [0.0f64, 0.0, 1.0];
            assert!(near(m.kl_divergence_base2::<f64>(p), 1.573735245297902), "C18: kl_divergence_base2 wrong where p has exact zeros");
            assert!(near(m.cross_entropy_base2::<f64>(p), 1.573735245297902), "C18: cross_entropy_base2 wrong where p has exact zeros");
            let p = [1.0f64, 1e-310, 0.0];
            assert!(near(m.kl_divergence_base2::<f64>(p), 1.5906090638622983), "C18: kl_divergence_base2 wrong where p has a subnormal entry");
        }
    }
}

/// C18 (diagnostics; bounded: one concrete table 1/2, 1/4, 1/4 at u16, P = 12 < Probability::BITS,
/// one concrete reference distribution): the same five diagnostics through the eager contiguous
/// categorical model (symbol_table of a Vec-backed model), in f64 and entropy also in f32.
#[cfg_attr(kani, kani::proof)]
#[cfg_attr(kani, kani::unwind(6))]
pub fn diagnostics_concrete_categorical_u16_p12() {
    let m = match ContiguousCategoricalEntropyModel::<u16, _, 12>::from_nonzero_fixed_point_probabilities([2048u16, 1024, 1024], false) {
        Ok(m) => m,
        Err(_) => { assert!(false, "C19: valid fixed-point table refused"); return; }
    };
    let p = [0.25f64, 0.5, 0.25];
    match group(3) {
        0 => {
            assert!(near(m.entropy_base2::<f64>(), 1.5), "C18: entropy_base2 differs from -sum self[i] log2 self[i]");
            let h: f32 = m.entropy_base2::<f32>();
            assert!(h - 1.5 < 1e-4 && 1.5 - h < 1e-4, "C18: entropy_base2 (f32) differs from -sum self[i] log2 self[i]");
        }
        1 => {
            assert!(near(m.cross_entropy_base2::<f64>(p), 1.75), "C18: cross_entropy_base2 differs from -sum p[i] log2 self[i]");
            assert!(near(m.kl_divergence_base2::<f64>(p), 0.25), "C18: kl_divergence_base2 differs from sum p[i] log2(p[i] / self[i])");
        }
        _ => {
            assert!(near(m.reverse_cross_entropy_base2::<f64>(p), 1.75), "C18: reverse_cross_entropy_base2 differs from -sum self[i] log2 p[i]");
            assert!(near(m.reverse_kl_divergence_base2::<f64>(p), 0.25), "C18: reverse_kl_divergence_base2 differs from sum self[i] log2(self[i] / p[i])");
        }
    }
}

macro_rules! generic_concrete_harness {
    ($name:ident, $P:expr) => {
        /// C05 (bounded: one concrete 3-symbol table, every quantile): to_generic_decoder_model and
        /// to_generic_lookup_decoder_model assign every quantile the triple of the original model
        /// (also at PRECISION == Probability::BITS, where the closing sentinel wraps).
        #[cfg_attr(kani, kani::proof)]
        #[cfg_attr(kani, kani::unwind(20))]
        pub fn $name() {
            const P: usize = $P;
            let total: u32 = 1u32 << P;
            let t: [u8; 2] = [(total / 4) as u8, (total / 2) as u8];
            let m = ContiguousCategoricalEntropyModel::<u8, Vec<u8>, P>::from_nonzero_fixed_point_probabilities(&t, true).unwrap();
            let d = m.to_generic_decoder_model();
            let q: u8 = any(); assume((q as u32) < total);
            assert!(d.quantile_function(q) == m.quantile_function(q), "C05: to_generic_decoder_model differs from the original model");
        }
    };
}
generic_concrete_harness!(generic_decoder_concrete_p8, 8);
generic_concrete_harness!(generic_decoder_concrete_p5, 5);
