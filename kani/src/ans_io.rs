//! ANS coder import/export, guards, size queries, seeking and batch forms (src/stream/stack.rs,
//! src/lib.rs::bit_array_to_chunks_truncated, default methods of src/stream/mod.rs).
//! C01 (export/import, batch == loop), C04 (raw binary), C07 (pos/seek), C08 (guards), C18 (sizes).
use crate::cover;
use crate::kx::*;
use crate::stubs::*;
use constriction::stream::model::{DecoderModel, EncoderModel};
use constriction::stream::stack::AnsCoder;
use constriction::stream::{Code, Decode, Encode, TryCodingError};
use constriction::{CoderError, Pos, Seek};
use core::convert::Infallible;

impl<'a, W: Copy, const N: usize> IntoIterator for &'a ArrStack<W, N> {
    type Item = &'a W;
    type IntoIter = core::slice::Iter<'a, W>;
    fn into_iter(self) -> Self::IntoIter { self.buf[..self.n].iter() }
}

macro_rules! ans_io_harnesses {
    ($modname:ident, $W:ty, $S:ty) => {
        pub mod $modname {
            use super::*;
            type W = $W; type S = $S;
            const WB: u32 = <$W>::BITS; const SB: u32 = <$S>::BITS;
            const NW: usize = (SB / WB) as usize;
            type Bulk = ArrStack<W, 8>;
            type Coder = AnsCoder<W, S, Bulk>;

            fn any_coder() -> (Bulk, S) {
                let bulk = Bulk::any_upto(2);
                let state: S = any();
                assume(bulk.n == 0 || state >= (1 as S) << (SB - WB));
                (bulk, state)
            }
            /// spec of the export: bulk ++ state in base 2^wb, least significant word first, without
            /// leading zero words (so the last word is never zero)
            fn spec_export(bulk: &Bulk, state: S) -> ([W; 8], usize) {
                let mut out = [0 as W; 8]; let mut n = 0;
                while n < bulk.n { out[n] = bulk.buf[n]; n += 1; }
                let mut s = state as u128;
                while s != 0 { out[n] = (s & ((1u128 << WB) - 1)) as W; s >>= WB; n += 1; }
                (out, n)
            }

            /// C01/C18: into_compressed == spec; num_words/num_bits/is_empty/iter_compressed agree with
            /// it; from_compressed(into_compressed(c)) == c; exported data never ends in a zero word.
            #[cfg_attr(kani, kani::proof)]
            #[cfg_attr(kani, kani::unwind(10))]
            pub fn export_import() {
                let (bulk, state) = any_coder();
                let c = Coder::from_raw_parts(bulk, state);
                let (spec, n) = spec_export(&bulk, state);
                // independent assertion groups (kx::group): 0 size queries, 1 word iterator, 2 clone, 3 export / re-import
                let grp = group(4);
                if grp == 0 {
                    assert!(c.num_words() == n, "C18/C12: num_words differs from the length of the exported data");
                    assert!(c.num_bits() == n * WB as usize, "C18/C12: num_bits differs from wb * exported words");
                    assert!(c.is_empty() == (n == 0), "C18: is_empty must hold exactly when exporting returns nothing");
                    assert!(Decode::<1>::maybe_exhausted(&c) == (n == 0), "C18: maybe_exhausted must equal is_empty for the ANS coder");
                    return;
                }
                if grp == 1 {
                    let mut k = 0;
                    for w in c.iter_compressed() { assert!(k < n && w == spec[k], "C08/C18: iter_compressed differs from the exported data"); k += 1; }
                    assert!(k == n, "C08/C18: iter_compressed has a different length than the exported data");
                    return;
                }
                let cl = c.clone();
                if grp == 2 {
                    let (cb, cs) = cl.into_raw_parts();
                    assert!(cs == state && cb.n == bulk.n, "C08: clone differs from the original");
                    let mut i = 0; while i < bulk.n { assert!(cb.buf[i] == bulk.buf[i], "C08: clone differs from the original (bulk)"); i += 1; }
                    return;
                }
                let words = match c.into_compressed() { Ok(w) => w, Err(_) => { assert!(false, "C01: export failed on a non-full backend"); return; } };
                assert!(words.n == n, "C01/C06: exported data has the wrong length");
                let mut i = 0; while i < n { assert!(words.buf[i] == spec[i], "C01/C06: exported words differ from bulk ++ little-endian state chunks"); i += 1; }
                if n > 0 { assert!(words.buf[n - 1] != 0, "C01: exported data ends in a zero word"); }
                match Coder::from_compressed(words) {
                    Ok(c2) => { let (b2, s2) = c2.into_raw_parts(); assert!(s2 == state && b2.n == bulk.n, "C01: from_compressed(into_compressed(c)) != c"); let mut i = 0; while i < b2.n { assert!(b2.buf[i] == bulk.buf[i], "C01: re-imported bulk differs"); i += 1; } }
                    Err(_) => assert!(false, "C01: re-import of exported data refused"),
                }
                cover!(bulk.n == 0 && state == 0, "empty coder");
                cover!(bulk.n == 2, "two bulk words");
            }

            /// C01: from_compressed on ARBITRARY words: refused iff the last word is zero; otherwise the
            /// coder satisfies the invariant and exports exactly the imported words again.
            #[cfg_attr(kani, kani::proof)]
            #[cfg_attr(kani, kani::unwind(10))]
            pub fn import_any() {
                let data = Bulk::any_upto(NW + 1);
                match Coder::from_compressed(data) {
                    Err(_) => assert!(data.n > 0 && data.buf[data.n - 1] == 0, "C01: from_compressed refused data that does not end in a zero word"),
                    Ok(c) => {
                        assert!(data.n == 0 || data.buf[data.n - 1] != 0, "C01: from_compressed accepted data ending in a zero word");
                        let (b, s) = c.clone().into_raw_parts();
                        assert!(b.n == 0 || s >= (1 as S) << (SB - WB), "C01: imported coder violates the state invariant");
                        let words = c.into_compressed().ok().unwrap();
                        assert!(words.n == data.n, "C01: into_compressed(from_compressed(d)) has a different length");
                        let mut i = 0; while i < data.n { assert!(words.buf[i] == data.buf[i], "C01: into_compressed(from_compressed(d)) != d"); i += 1; }
                    }
                }
            }

            /// C04/C18: raw binary: from_binary(d) for ANY words d (incl. trailing zeros, empty):
            /// into_binary == d, num_valid_bits == wb*|d|, never empty; get_binary shows d and restores.
            #[cfg_attr(kani, kani::proof)]
            #[cfg_attr(kani, kani::unwind(10))]
            pub fn binary_roundtrip() {
                let data = Bulk::any_upto(NW + 1);
                let mut c = match Coder::from_binary(data) { Ok(c) => c, Err(_) => { assert!(false, "C04: from_binary failed"); return; } };
                // independent assertion groups (kx::group): 0 size queries, 1 head invariant, 2 get_binary view, 3 into_binary round trip
                let grp = group(4);
                if grp == 0 {
                    assert!(!c.is_empty(), "C04/C18: a coder loaded from raw binary data is never empty");
                    assert!(c.num_valid_bits() == data.n * WB as usize, "C04/C18: num_valid_bits must equal the size of the loaded data");
                    return;
                }
                let (b0, s0) = c.clone().into_raw_parts();
                if grp == 1 { assert!(b0.n == 0 || s0 >= (1 as S) << (SB - WB), "C01/C04: from_binary violates the state invariant (head under-filled although words remain)"); return; }
                if grp == 2 {
                    let g = match c.get_binary() { Ok(g) => g, Err(_) => { assert!(false, "C04/C08: get_binary failed on data loaded with from_binary"); return; } };
                    assert!(g.n == data.n, "C08/C04: get_binary view has the wrong length");
                    let mut i = 0; while i < data.n { assert!(g.buf[i] == data.buf[i], "C08/C04: get_binary view differs from the loaded data"); i += 1; }
                }
                if grp == 2 {
                    let (b1, s1) = c.clone().into_raw_parts();
                    assert!(s1 == s0 && b1.n == b0.n, "C01/C08/C06/C04/C12: dropping the get_binary view did not restore the coder");
                    let mut i = 0; while i < b0.n { assert!(b1.buf[i] == b0.buf[i], "C01/C08/C06/C04/C12: dropping the get_binary view changed the bulk"); i += 1; }
                    return;
                }
                match c.into_binary() {
                    Ok(w) => { assert!(w.n == data.n, "C04: into_binary(from_binary(d)) has a different length"); let mut i = 0; while i < data.n { assert!(w.buf[i] == data.buf[i], "C04: into_binary(from_binary(d)) != d"); i += 1; } }
                    Err(_) => assert!(false, "C04: into_binary refused data loaded with from_binary"),
                }
                cover!(data.n == 0, "empty data");
                cover!(data.n > 0 && data.buf[data.n - 1] == 0, "data ending in a zero word");
            }

            /// C04: into_binary succeeds exactly when the payload is a whole number of words, and then
            /// from_binary(into_binary(c)) == c.
            #[cfg_attr(kani, kani::proof)]
            #[cfg_attr(kani, kani::unwind(10))]
            pub fn binary_export_any() {
                let (bulk, state) = any_coder();
                let c = Coder::from_raw_parts(bulk, state);
                let whole = state != 0 && (SB - 1 - state.leading_zeros()) % WB == 0;
                match c.into_binary() {
                    Err(_) => assert!(!whole, "C04: into_binary refused a coder holding a whole number of words"),
                    Ok(w) => {
                        assert!(whole, "C04: into_binary accepted a coder whose payload is not a whole number of words");
                        match Coder::from_binary(w) { Ok(c2) => { let (b2, s2) = c2.into_raw_parts(); assert!(s2 == state && b2.n == bulk.n, "C04: from_binary(into_binary(c)) != c"); }, Err(_) => assert!(false, "C04: from_binary failed") }
                    }
                }
            }

            /// C08: get_compressed view == into_compressed of a clone; dropping it restores (bulk, state).
            #[cfg_attr(kani, kani::proof)]
            #[cfg_attr(kani, kani::unwind(10))]
            pub fn guard_compressed() {
                let (bulk, state) = any_coder();
                let mut c = Coder::from_raw_parts(bulk, state);
                let (spec, n) = spec_export(&bulk, state);
                let grp = group(2);   // 0: what the view shows; 1: the coder after the view is dropped
                {
                    let g = match c.get_compressed() { Ok(g) => g, Err(_) => { assert!(false, "C08: get_compressed failed on a non-full backend"); return; } };
                    if grp == 0 {
                        assert!(g.n == n, "C08: get_compressed view has a different length than finishing the encoder would return");
                        let mut i = 0; while i < n { assert!(g.buf[i] == spec[i], "C08: get_compressed view differs from what finishing the encoder would return"); i += 1; }
                    }
                }
                if grp == 0 { return; }
                let (b1, s1) = c.into_raw_parts();
                assert!(s1 == state && b1.n == bulk.n, "C08/C01/C12/C06: dropping the get_compressed view did not restore the coder (stale words stay on the bulk)");
                let mut i = 0; while i < bulk.n { assert!(b1.buf[i] == bulk.buf[i], "C08/C01/C12/C06: dropping the get_compressed view changed the bulk"); i += 1; }
            }

            /// C07: pos() == (backend position, state); seek((p, s)) truncates the stack backend to p and
            /// installs s; positions beyond the data are refused and leave the coder unchanged.
            #[cfg_attr(kani, kani::proof)]
            #[cfg_attr(kani, kani::unwind(10))]
            pub fn pos_seek() {
                let (bulk, state) = any_coder();
                let mut c = Coder::from_raw_parts(bulk, state);
                let (p, s) = c.pos();
                assert!(p == bulk.n && s == state, "C07: pos() must report (number of bulk words, state)");
                let tp: usize = any(); let ts: S = any();
                let r = c.seek((tp, ts));
                let (b1, s1) = c.into_raw_parts();
                if tp <= bulk.n {
                    assert!(r.is_ok() && s1 == ts && b1.n == tp, "C07: seek must install the recorded (position, state)");
                    let mut i = 0; while i < tp { assert!(b1.buf[i] == bulk.buf[i], "C07: seek changed words below the position"); i += 1; }
                } else { assert!(r.is_err() && s1 == state && b1.n == bulk.n, "C07: seek beyond the data must be refused and leave the coder unchanged"); }
            }
        }
    };
}
ans_io_harnesses!(u8_u16, u8, u16);
ans_io_harnesses!(u8_u32, u8, u32);
ans_io_harnesses!(u16_u32, u16, u32);
ans_io_harnesses!(u32_u64, u32, u64);

// ---------------------------------------------------------------------------- batch forms
/// Recording coder: implements Encode/Decode by logging the calls.  The default batch methods of
/// the Encode/Decode traits are checked against "the per-symbol loop" for ANY implementor.
#[derive(Clone, Copy, PartialEq, Eq)]
pub struct Rec { pub log: [(u16, u8); 4], pub n: usize, pub fail_at: usize }
impl Code for Rec { type Word = u8; type State = usize; fn state(&self) -> usize { self.n } }
impl<const P: usize> Encode<P> for Rec {
    type FrontendError = (); type BackendError = ();
    fn encode_symbol<M>(&mut self, symbol: impl core::borrow::Borrow<M::Symbol>, model: M) -> Result<(), CoderError<(), ()>>
    where M: EncoderModel<P>, M::Probability: Into<u8>, u8: num_traits::AsPrimitive<M::Probability> {
        if self.n == self.fail_at { return Err(CoderError::Frontend(())); }
        match model.left_cumulative_and_probability(symbol) {
            Some((c, _p)) => { if self.n < 4 { self.log[self.n] = (1, c.into()); self.n += 1; } Ok(()) }
            None => Err(CoderError::Frontend(())),
        }
    }
}
impl<const P: usize> Decode<P> for Rec {
    type FrontendError = (); type BackendError = ();
    fn decode_symbol<M>(&mut self, model: M) -> Result<M::Symbol, CoderError<(), ()>>
    where M: DecoderModel<P>, M::Probability: Into<u8>, u8: num_traits::AsPrimitive<M::Probability> {
        use num_traits::AsPrimitive;
        if self.n == self.fail_at { return Err(CoderError::Frontend(())); }
        let q: u8 = if self.n < 4 { self.log[self.n].1 } else { 0 };
        let (s, c, _p) = model.quantile_function(q.as_());
        if self.n < 4 { self.log[self.n] = (2, c.into()); self.n += 1; }
        Ok(s)
    }
    fn maybe_exhausted(&self) -> bool { false }
}

/// C01: encode_symbols / try_encode_symbols / encode_iid_symbols issue exactly the calls of the
/// per-symbol loop, in order, and stop at the first error with that error.
#[cfg_attr(kani, kani::proof)]
#[cfg_attr(kani, kani::unwind(6))]
pub fn batch_encode_forms() {
    const P: usize = 8;
    let es = [any_entry::<u8, P>(false), any_entry::<u8, P>(false), any_entry::<u8, P>(false)];
    let syms: [u16; 3] = [any(), any(), any()];
    let fail_at: usize = any();
    let fresh = Rec { log: [(0, 0); 4], n: 0, fail_at };
    // reference: the per-symbol loop
    let mut a = fresh; let mut ra = Ok(());
    let mut i = 0; while i < 3 { if let Err(e) = Encode::<P>::encode_symbol(&mut a, syms[i], es[i]) { ra = Err(e); break; } i += 1; }
    let mut b = fresh;
    let rb = Encode::<P>::encode_symbols(&mut b, [(syms[0], es[0]), (syms[1], es[1]), (syms[2], es[2])]);
    assert!(a == b && ra == rb, "C01: encode_symbols differs from the per-symbol loop");
    let mut c = fresh;
    let rc = Encode::<P>::try_encode_symbols(&mut c, [Ok::<_, ()>((syms[0], es[0])), Ok((syms[1], es[1])), Ok((syms[2], es[2]))]);
    assert!(a == c && match (&ra, &rc) { (Ok(()), Ok(())) => true, (Err(x), Err(TryCodingError::CodingError(y))) => x == y, _ => false }, "C01: try_encode_symbols differs from the per-symbol loop");
    let mut d = fresh;
    let rd = Encode::<P>::try_encode_symbols(&mut d, [Ok::<_, u8>((syms[0], es[0])), Err(7u8), Ok((syms[2], es[2]))]);
    if fail_at != 0 && syms[0] == es[0].sym { assert!(matches!(rd, Err(TryCodingError::InvalidEntropyModel(7))) && d.n == 1, "C01: try_encode_symbols must stop at the first failing model and report it"); }
    // iid
    let mut a2 = fresh; let mut ra2 = Ok(());
    let mut i = 0; while i < 3 { if let Err(e) = Encode::<P>::encode_symbol(&mut a2, syms[i], es[0]) { ra2 = Err(e); break; } i += 1; }
    let mut e2 = fresh;
    let re2 = Encode::<P>::encode_iid_symbols(&mut e2, syms, es[0]);
    assert!(a2 == e2 && ra2 == re2, "C01: encode_iid_symbols differs from the per-symbol loop");
    cover!(ra.is_ok(), "all encoded");
    cover!(ra.is_err() && a.n == 1, "error at the second symbol");
}

/// C01: decode_symbols / try_decode_symbols / decode_iid_symbols yield exactly what the
/// per-symbol loop yields, lazily, one decode per item.
#[cfg_attr(kani, kani::proof)]
#[cfg_attr(kani, kani::unwind(6))]
pub fn batch_decode_forms() {
    const P: usize = 8;
    let es = [any_entry::<u8, P>(false), any_entry::<u8, P>(false)];
    let q: [u8; 2] = [any(), any()];
    let fresh = Rec { log: [(0, q[0]), (0, q[1]), (0, 0), (0, 0)], n: 0, fail_at: any() };
    let mut a = fresh;
    let r0 = Decode::<P>::decode_symbol(&mut a, es[0]);
    let r1 = Decode::<P>::decode_symbol(&mut a, es[1]);
    let mut b = fresh;
    {
        let mut it = Decode::<P>::decode_symbols(&mut b, es);
        assert!(it.len() == 2, "C01: decode_symbols reports the wrong length");
        assert!(it.next() == Some(r0.clone()), "C01: decode_symbols differs from the per-symbol loop (1st)");
        assert!(it.next() == Some(r1.clone()), "C01: decode_symbols differs from the per-symbol loop (2nd)");
        assert!(it.next().is_none(), "C01: decode_symbols yields too many items");
    }
    assert!(a == b, "C01: decode_symbols left the coder in a different state than the per-symbol loop");
    let mut c = fresh;
    {
        let mut it = Decode::<P>::try_decode_symbols(&mut c, [Ok::<_, u8>(es[0]), Err(9u8), Ok(es[1])]);
        let x0 = it.next();
        assert!(match (&x0, &r0) { (Some(Ok(s)), Ok(t)) => s == t, (Some(Err(TryCodingError::CodingError(e))), Err(f)) => e == f, _ => false }, "C01: try_decode_symbols differs from the per-symbol loop");
        assert!(matches!(it.next(), Some(Err(TryCodingError::InvalidEntropyModel(9)))), "C01: try_decode_symbols must report a failing model");
    }
    let mut a2 = fresh;
    let s0 = Decode::<P>::decode_symbol(&mut a2, es[0]);
    let s1 = Decode::<P>::decode_symbol(&mut a2, es[0]);
    let mut d = fresh;
    {
        let mut it = Decode::<P>::decode_iid_symbols(&mut d, 2, es[0]);
        assert!(it.len() == 2 && it.next() == Some(s0) && it.next() == Some(s1) && it.next().is_none(), "C01: decode_iid_symbols differs from the per-symbol loop");
    }
    assert!(a2 == d, "C01: decode_iid_symbols left the coder in a different state than the per-symbol loop");
}

/// C01 (bounded: 2 symbols, P=3): AnsCoder's reverse batch forms equal the loop in reverse order.
#[cfg_attr(kani, kani::proof)]
#[cfg_attr(kani, kani::unwind(6))]
#[cfg_attr(kani, kani::solver(kissat))]
pub fn batch_reverse_ans_u8_u16_p3() {
    const P: usize = 3;
    type Bulk = ArrStack<u8, 4>;
    let state: u16 = any();
    let es = [any_entry::<u8, P>(false), any_entry::<u8, P>(false)];
    let mut a = AnsCoder::<u8, u16, Bulk>::from_raw_parts(Bulk::default(), state);
    if a.encode_symbol(es[1].sym, es[1]).is_err() { return; }
    if a.encode_symbol(es[0].sym, es[0]).is_err() { return; }
    let mut b = AnsCoder::<u8, u16, Bulk>::from_raw_parts(Bulk::default(), state);
    assert!(b.encode_symbols_reverse([(es[0].sym, es[0]), (es[1].sym, es[1])]).is_ok(), "C01: encode_symbols_reverse failed");
    let mut c = AnsCoder::<u8, u16, Bulk>::from_raw_parts(Bulk::default(), state);
    assert!(c.try_encode_symbols_reverse([Ok::<_, ()>((es[0].sym, es[0])), Ok((es[1].sym, es[1]))]).is_ok(), "C01: try_encode_symbols_reverse failed");
    let (ab, as_) = a.into_raw_parts(); let (bb, bs) = b.into_raw_parts(); let (cb, cs) = c.into_raw_parts();
    assert!(as_ == bs && ab == bb, "C01: encode_symbols_reverse differs from the reversed per-symbol loop");
    assert!(as_ == cs && ab == cb, "C01: try_encode_symbols_reverse differs from the reversed per-symbol loop");
    let mut d = AnsCoder::<u8, u16, Bulk>::from_raw_parts(Bulk::default(), state);
    let mut e = AnsCoder::<u8, u16, Bulk>::from_raw_parts(Bulk::default(), state);
    if d.encode_symbol(es[1].sym, es[0]).is_err() { return; }
    if d.encode_symbol(es[0].sym, es[0]).is_err() { return; }
    if e.encode_iid_symbols_reverse([es[0].sym, es[1].sym], es[0]).is_err() { assert!(false, "C01: encode_iid_symbols_reverse failed where the loop succeeds"); return; }
    let (db, ds) = d.into_raw_parts(); let (eb, es_) = e.into_raw_parts();
    assert!(ds == es_ && db == eb, "C01: encode_iid_symbols_reverse differs from the reversed per-symbol loop");
}

/// C08 / C01: the thin re-packaging functions of the ANS coder (Vec backend): `as_decoder` /
/// `as_seekable_decoder` show exactly the encoder's (words, state) and leave it untouched;
/// `into_decoder` keeps (words, state); `from_reversed_compressed` of the reversed export is the
/// coder again.
#[cfg_attr(kani, kani::proof)]
#[cfg_attr(kani, kani::unwind(8))]
pub fn views_u8_u16() {
    use constriction::backends::ReadWords;
    use constriction::Stack;
    let n: usize = any(); assume(n <= 2);
    let w = any_arr::<u8, 2>();
    let state: u16 = any();
    assume(if n == 0 { true } else { state >= 1 << 8 });
    let mut v: Vec<u8> = Vec::with_capacity(4);
    let mut i = 0; while i < n { v.push(w[i]); i += 1; }
    let c = AnsCoder::<u8, u16, Vec<u8>>::from_raw_parts(v, state);
    let grp = group(4);
    if grp == 0 {
        let d = c.as_decoder();
        assert!(d.state() == state, "C08: temporary decoder starts from a different state than the encoder");
        let (mut b, _) = d.into_raw_parts();
        let mut i = n; while i > 0 { assert!(matches!(ReadWords::<u8, Stack>::read(&mut b), Ok(Some(x)) if x == w[i - 1]), "C08: temporary decoder sees different words than the encoder holds"); i -= 1; }
        assert!(matches!(ReadWords::<u8, Stack>::read(&mut b), Ok(None)), "C08: temporary decoder sees more words than the encoder holds");
    } else if grp == 1 {
        let d = c.as_seekable_decoder();
        assert!(d.state() == state, "C08/C07: seekable decoder starts from a different state than the encoder");
        let (mut b, _) = d.into_raw_parts();
        let mut i = n; while i > 0 { assert!(matches!(ReadWords::<u8, Stack>::read(&mut b), Ok(Some(x)) if x == w[i - 1]), "C08/C07: seekable decoder sees different words than the encoder holds"); i -= 1; }
        assert!(matches!(ReadWords::<u8, Stack>::read(&mut b), Ok(None)), "C08/C07: seekable decoder sees more words than the encoder holds");
    } else if grp == 2 {
        let d = c.clone().into_decoder();
        assert!(d.state() == state, "C01: into_decoder changed the state");
        let (mut b, _) = d.into_raw_parts();
        let mut i = n; while i > 0 { assert!(matches!(ReadWords::<u8, Stack>::read(&mut b), Ok(Some(x)) if x == w[i - 1]), "C01: into_decoder changed the words"); i -= 1; }
    } else {
        if n > 0 || state != 0 {
            let words = match c.clone().into_compressed() { Ok(w) => w, Err(_) => return };
            let mut rev: Vec<u8> = Vec::with_capacity(4);
            let mut i = words.len(); while i > 0 { rev.push(words[i - 1]); i -= 1; }
            match AnsCoder::<u8, u16, _>::from_reversed_compressed(rev) {
                Ok(r) => {
                    assert!(r.state() == state, "C01: from_reversed_compressed of the reversed export has a different state");
                    let (mut b, _) = r.into_raw_parts();
                    let mut i = n; while i > 0 { assert!(matches!(ReadWords::<u8, Stack>::read(&mut b), Ok(Some(x)) if x == w[i - 1]), "C01: from_reversed_compressed of the reversed export has different words"); i -= 1; }
                }
                Err(_) => assert!(false, "C01: from_reversed_compressed refused the reversed export"),
            }
        }
    }
    // the encoder itself is untouched by all of the above (they take &self or a clone)
    let (b0, s0) = c.into_raw_parts();
    assert!(s0 == state && b0.len() == n, "C08: inspecting changed the encoder");
}

/// C01/C04: the slice / reversed constructors are the same coder as the owning ones:
/// from_compressed_slice(d), from_binary_slice(d), from_reversed_binary(rev d) have the state
/// and the remaining words that from_compressed / from_binary leave for the same words.
#[cfg_attr(kani, kani::proof)]
#[cfg_attr(kani, kani::unwind(8))]
pub fn slice_constructors_u8_u16() {
    use constriction::backends::ReadWords;
    use constriction::Stack;
    let n: usize = any(); assume(n <= 3);
    let d = any_arr::<u8, 3>();
    let grp = group(3);
    // reference: owning constructors over the array backend
    let mut a = ArrStack::<u8, 4>::default(); let mut i = 0; while i < n { a.buf[i] = d[i]; i += 1; } a.n = n;
    if grp == 0 {
        let r = AnsCoder::<u8, u16, ArrStack<u8, 4>>::from_compressed(a);
        let s = AnsCoder::<u8, u16, _>::from_compressed_slice(&d[..n]);
        match (r, s) {
            (Ok(r), Ok(s)) => {
                let (rb, rs) = r.into_raw_parts(); let (mut sb, ss) = s.into_raw_parts();
                assert!(rs == ss, "C01: from_compressed_slice has a different state than from_compressed");
                let mut i = rb.n; while i > 0 { assert!(matches!(ReadWords::<u8, Stack>::read(&mut sb), Ok(Some(x)) if x == rb.buf[i - 1]), "C01: from_compressed_slice leaves different words than from_compressed"); i -= 1; }
                assert!(matches!(ReadWords::<u8, Stack>::read(&mut sb), Ok(None)), "C01: from_compressed_slice leaves more words than from_compressed");
            }
            (Err(_), Err(_)) => {}
            _ => assert!(false, "C01: from_compressed_slice and from_compressed disagree on accepting the data"),
        }
    } else {
        let r = match AnsCoder::<u8, u16, ArrStack<u8, 4>>::from_binary(a) { Ok(r) => r, Err(_) => return };
        let (rb, rs) = r.into_raw_parts();
        if grp == 1 {
            let (mut sb, ss) = AnsCoder::<u8, u16, _>::from_binary_slice(&d[..n]).into_raw_parts();
            assert!(rs == ss, "C04/C01: from_binary_slice has a different state than from_binary");
            let mut i = rb.n; while i > 0 { assert!(matches!(ReadWords::<u8, Stack>::read(&mut sb), Ok(Some(x)) if x == rb.buf[i - 1]), "C04/C01: from_binary_slice leaves different words than from_binary"); i -= 1; }
            assert!(matches!(ReadWords::<u8, Stack>::read(&mut sb), Ok(None)), "C04/C01: from_binary_slice leaves more words than from_binary");
        } else {
            let mut rev = [0u8; 3]; let mut i = 0; while i < n { rev[i] = d[n - 1 - i]; i += 1; }
            let (mut sb, ss) = AnsCoder::<u8, u16, _>::from_reversed_binary(&rev[..n]).into_raw_parts();
            assert!(rs == ss, "C04/C01: from_reversed_binary of the reversed data has a different state than from_binary");
            let mut i = rb.n; while i > 0 { assert!(matches!(ReadWords::<u8, Stack>::read(&mut sb), Ok(Some(x)) if x == rb.buf[i - 1]), "C04/C01: from_reversed_binary leaves different words than from_binary"); i -= 1; }
            assert!(matches!(ReadWords::<u8, Stack>::read(&mut sb), Ok(None)), "C04/C01: from_reversed_binary leaves more words than from_binary");
        }
    }
}
