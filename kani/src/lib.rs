#![allow(unused)]
//! Kani harness crate: contracts checked on the real `constriction` crate (path dependency
//! on /repo). Harness bodies draw inputs through `kx` so they also run natively for replay.
pub mod kx;
pub mod stubs;
pub mod ans;
pub mod ans_io;
pub mod range;
pub mod backends;
pub mod bits;
pub mod models;
pub mod chain;
pub mod huffman;
/// Pipeline self-test harnesses (not registered for any property).
pub mod selftest {
    use crate::kx::*;
    /// must fail under Kani with a counterexample that replays natively
    #[cfg_attr(kani, kani::proof)]
    pub fn failing() { let x: u8 = any(); let y: u16 = any(); assume(y > 3); assert!(x as u32 + y as u32 != 300, "selftest: must fail"); }
    #[cfg_attr(kani, kani::proof)]
    pub fn smoke() { let x: u8 = any(); assert!(x as u16 + 1 > 0, "selftest: cannot fail"); }
}
