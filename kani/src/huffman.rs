//! Huffman codebooks (src/symbol/huffman.rs), bounded: n symbols, symbolic u8 weights.
//! C15: prefix-free + complete (Kraft equality), optimal, deterministic tie-break by index,
//! prefix form == reversed suffix form, decoder inverts encoder, out-of-alphabet rejected.
use crate::cover;
use crate::kx::*;
use constriction::symbol::huffman::*;
use constriction::symbol::{DecoderCodebook, EncoderCodebook};
use core::convert::Infallible;

/// reference: textbook Huffman merge with the (weight, index) order; returns code lengths.
/// Written without reference to the implementation's node layout.
pub fn ref_lengths<const N: usize>(w: &[u16; N]) -> [usize; N] {
    let mut weight = [0u32; 8]; let mut alive = [false; 8]; let mut id = [0usize; 8];
    let mut group = [0usize; N]; let mut len = [0usize; N];
    let mut i = 0; while i < N { weight[i] = w[i] as u32; alive[i] = true; id[i] = i; group[i] = i; i += 1; }
    let mut next = N; let mut count = N;
    while count > 1 {
        // two smallest by (weight, id)
        let mut a = usize::MAX; let mut b = usize::MAX;
        let mut k = 0;
        while k < next {
            if alive[k] {
                if a == usize::MAX || (weight[k], id[k]) < (weight[a], id[a]) { b = a; a = k; }
                else if b == usize::MAX || (weight[k], id[k]) < (weight[b], id[b]) { b = k; }
            }
            k += 1;
        }
        alive[a] = false; alive[b] = false;
        weight[next] = weight[a] + weight[b]; alive[next] = true; id[next] = next;
        let mut s = 0; while s < N { if group[s] == a || group[s] == b { group[s] = next; len[s] += 1; } s += 1; }
        next += 1; count -= 1;
    }
    len
}

macro_rules! huffman_harness {
    ($name:ident, $N:expr, $unw:expr) => {
        #[cfg_attr(kani, kani::proof)]
        #[cfg_attr(kani, kani::unwind($unw))]
        pub fn $name() {
            const N: usize = $N;
            let w8 = any_arr::<u8, N>();
            let mut w = [0u16; N]; let mut i = 0; while i < N { w[i] = w8[i] as u16; i += 1; }
            let enc = EncoderHuffmanTree::from_probabilities::<u16, _>(&w);
            let dec = DecoderHuffmanTree::from_probabilities::<u16, _>(&w);
            assert!(enc.num_symbols() == N && dec.num_symbols() == N, "C15: codebook reports the wrong alphabet size");
            let reference = ref_lengths::<N>(&w);
            // code length of every symbol; Kraft sum in units of 2^-N
            let mut kraft: u32 = 0; let mut cost: u32 = 0; let mut ref_cost: u32 = 0;
            let mut s = 0;
            while s < N {
                let mut l = 0usize;
                if enc.encode_symbol_suffix(s, |_b| { l += 1; Result::<(), Infallible>::Ok(()) }).is_err() { assert!(false, "C15: in-alphabet symbol rejected"); return; }
                assert!(l <= N - 1 && (N == 1 || l >= 1), "C15: impossible code length");
                assert!(l == reference[s], "C15: code lengths differ from the reference Huffman merge (optimality / tie-break by index)");
                kraft += 1u32 << (N - l);
                cost += w[s] as u32 * l as u32; ref_cost += w[s] as u32 * reference[s] as u32;
                s += 1;
            }
            if N >= 2 { assert!(kraft == 1u32 << N, "C15: Kraft equality violated (code not complete)"); }
            assert!(cost == ref_cost, "C15: total weighted length not minimal");
            // one symbolic symbol: prefix == reversed suffix, decoder inverts, consumes exactly the codeword
            let s: usize = any(); assume(s < N);
            let mut suf = [false; N]; let mut ls = 0usize;
            enc.encode_symbol_suffix(s, |b| { suf[ls] = b; ls += 1; Result::<(), Infallible>::Ok(()) }).ok();
            let mut pre = [false; N]; let mut lp = 0usize;
            enc.encode_symbol_prefix(s, |b| { pre[lp] = b; lp += 1; Result::<(), Infallible>::Ok(()) }).ok();
            assert!(lp == ls, "C15: prefix and suffix codewords differ in length");
            let mut i = 0; while i < lp { assert!(pre[i] == suf[lp - 1 - i], "C15: prefix form is not the reversed suffix form"); i += 1; }
            let mut used = 0usize;
            let d = dec.decode_symbol(core::iter::from_fn(|| { if used < lp { used += 1; Some(Result::<bool, Infallible>::Ok(pre[used - 1])) } else { None } }));
            match d { Ok(x) => assert!(x == s && used == lp, "C15: decoder does not invert the encoder (prefix-freeness)"), Err(_) => assert!(false, "C15: decoding a codeword failed") }
            // out of alphabet
            let t: usize = any(); assume(t >= N);
            assert!(enc.encode_symbol_suffix(t, |_b| Result::<(), Infallible>::Ok(())).is_err(), "C15/C09: symbol outside the alphabet accepted");
            assert!(enc.encode_symbol_prefix(t, |_b| Result::<(), Infallible>::Ok(())).is_err(), "C15/C09: symbol outside the alphabet accepted (prefix form)");
            cover!(w[0] == w[N - 1], "tie or single symbol");
        }
    };
}
huffman_harness!(n1, 1, 6);
huffman_harness!(n2, 2, 8);
huffman_harness!(n3, 3, 10);
huffman_harness!(n4, 4, 12);

/// C15 (bounded: 3 symbols, f32 weights, every non-NaN bit pattern): encoder and decoder trees
/// built from the same float weights describe the same code (decoder inverts encoder); NaN is refused.
#[cfg_attr(kani, kani::proof)]
#[cfg_attr(kani, kani::unwind(10))]
pub fn f32_n3() {
    let w: [f32; 3] = [any(), any(), any()];
    let e = EncoderHuffmanTree::from_float_probabilities::<f32, _>(&w);
    let d = DecoderHuffmanTree::from_float_probabilities::<f32, _>(&w);
    let nan = w[0].is_nan() || w[1].is_nan() || w[2].is_nan();
    assert!(e.is_err() == nan && d.is_err() == nan, "C15: float codebooks must be refused exactly for NaN weights");
    if let (Ok(enc), Ok(dec)) = (e, d) {
        let s: usize = any(); assume(s < 3);
        let mut pre = [false; 3]; let mut lp = 0usize;
        enc.encode_symbol_prefix(s, |b| { pre[lp] = b; lp += 1; Result::<(), Infallible>::Ok(()) }).ok();
        assert!(lp >= 1 && lp <= 2, "C15: impossible code length");
        let mut used = 0usize;
        let r = dec.decode_symbol(core::iter::from_fn(|| { if used < lp { used += 1; Some(Result::<bool, Infallible>::Ok(pre[used - 1])) } else { None } }));
        match r { Ok(x) => assert!(x == s && used == lp, "C15: float decoder tree does not invert the float encoder tree"), Err(_) => assert!(false, "C15: decoding a float codeword failed") }
    }
}

// A 4-symbol f32 harness (weights from {2^-25, 1, 1 + 2^-23, 2}, chosen so that sums round differently in f32 and
// f64) was tried with four and with two symbolic weights: neither finished in 15-40 min (CBMC float adders inside the
// binary-heap merge).  Float codebooks beyond 3 symbols are out of reach here; see DESIGN.md.
