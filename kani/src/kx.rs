//! Input source shim: the same harness body runs under Kani (symbolic inputs) and
//! natively for replay (concrete inputs taken from the verifier's counterexample).
//!
//! Under `cfg(kani)` every `any*` call is one `kani::any()` call, so the byte vectors that
//! `--concrete-playback=print` reports (one per `kani::any()` call, in call order, little
//! endian) can be fed back through `set_replay_bytes` in the same order.

#[cfg(not(kani))]
mod native {
    use std::cell::RefCell;
    use std::collections::VecDeque;
    thread_local! {
        pub static INPUTS: RefCell<VecDeque<Vec<u8>>> = RefCell::new(VecDeque::new());
        pub static ASSUME_FAILED: RefCell<bool> = RefCell::new(false);
    }
    pub fn next(n: usize) -> Vec<u8> {
        INPUTS.with(|q| {
            let mut v = q.borrow_mut().pop_front().unwrap_or_default();
            v.resize(n, 0);
            v
        })
    }
}

#[cfg(not(kani))]
pub fn set_replay_inputs(v: Vec<Vec<u8>>) {
    native::INPUTS.with(|q| *q.borrow_mut() = v.into());
}

/// Marker panic payload used by the native replay to stop at a violated assumption.
pub struct AssumptionViolated;

pub trait Sym: Sized {
    fn sym() -> Self;
}

macro_rules! sym_int {
    ($($t:ty),*) => {$(
        impl Sym for $t {
            #[cfg(kani)]
            fn sym() -> Self { kani::any() }
            #[cfg(not(kani))]
            fn sym() -> Self {
                let b = native::next(core::mem::size_of::<$t>());
                let mut a = [0u8; core::mem::size_of::<$t>()];
                a.copy_from_slice(&b);
                <$t>::from_le_bytes(a)
            }
        }
    )*};
}
sym_int!(u8, u16, u32, u64, u128, usize, i8, i16, i32, i64, isize);

impl Sym for bool {
    #[cfg(kani)]
    fn sym() -> Self { kani::any() }
    #[cfg(not(kani))]
    fn sym() -> Self { native::next(1)[0] != 0 }
}
impl Sym for f32 {
    #[cfg(kani)]
    fn sym() -> Self { kani::any() }
    #[cfg(not(kani))]
    fn sym() -> Self { f32::from_bits(u32::sym()) }
}
impl Sym for f64 {
    #[cfg(kani)]
    fn sym() -> Self { kani::any() }
    #[cfg(not(kani))]
    fn sym() -> Self { f64::from_bits(u64::sym()) }
}

#[inline(always)]
pub fn any<T: Sym>() -> T { T::sym() }

/// Splits the assertion phase of a harness into `n` independently explored groups: a failed
/// `assert!` ends its path (Rust semantics), so an assertion of one property placed after an
/// assertion of another would never be evaluated on the inputs where the first one fails.
/// Each group is checked on its own copy of the paths (one extra symbolic byte; the native
/// replay follows the group recorded in the counterexample).
pub fn group(n: u8) -> u8 { let g: u8 = any(); assume(g < n); g }

/// Element-wise symbolic array (one `kani::any()` per element, so replay order is stable).
pub fn any_arr<T: Sym + Copy + Default, const N: usize>() -> [T; N] {
    let mut a = [T::default(); N];
    let mut i = 0;
    while i < N { a[i] = T::sym(); i += 1; }
    a
}

#[cfg(kani)]
#[inline(always)]
pub fn assume(c: bool) { kani::assume(c) }
#[cfg(not(kani))]
pub fn assume(c: bool) {
    if !c { std::panic::panic_any(AssumptionViolated) }
}

/// Vacuity guard: must be SATISFIED under Kani; no-op natively.
#[macro_export]
macro_rules! cover {
    ($c:expr, $m:literal) => {{
        #[cfg(kani)]
        kani::cover!($c, $m);
        #[cfg(not(kani))]
        let _ = $c;
    }};
}
