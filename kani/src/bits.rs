//! Bit-level stack and queue coders (src/symbol/mod.rs) and Exp-Golomb (src/symbol/exp_golomb.rs).
//! View: the sequence of bits written and not yet read (ghost array `b[0..n]`).  C16, C08, C18.
use crate::cover;
use crate::kx::*;
use crate::stubs::*;
use constriction::symbol::exp_golomb::ExpGolomb;
use constriction::symbol::{QueueDecoder, QueueEncoder, ReadBitStream, StackCoder, WriteBitStream};
use constriction::{CoderError, Queue, Stack};

const MAXB: usize = 10; // more than one u8 word: crosses the word boundary and the full-word state

/// spec: pack bits LSB-first into u8 words; `marker` appends the terminating 1 bit of a stack export
pub fn spec_words(b: &[bool; MAXB + 2], n: usize, marker: bool) -> ([u8; 3], usize) {
    let mut out = [0u8; 3];
    let total = if marker { n + 1 } else { n };
    let mut i = 0;
    while i < total {
        let bit = if i < n { b[i] } else { true };
        if bit { out[i / 8] |= 1 << (i % 8); }
        i += 1;
    }
    (out, (total + 7) / 8)
}

type SArr = ArrStack<u8, 4>;

fn filled_stack(b: &[bool; MAXB + 2], n: usize) -> StackCoder<u8, SArr> {
    let mut s = StackCoder::<u8, SArr>::new();
    let mut i = 0;
    while i < n { if s.write_bit(b[i]).is_err() { assume(false); } i += 1; }
    s
}

/// C16/C18: after writing any n <= 10 bits: len() == n, is_empty() == (n == 0); one more
/// write_bit/read_bit pair is LIFO; a read returns the last written bit (None on empty, sticky).
#[cfg_attr(kani, kani::proof)]
#[cfg_attr(kani, kani::unwind(13))]
pub fn stack_write_read() {
    let b = any_arr::<bool, { MAXB + 2 }>();
    let n: usize = any(); assume(n <= MAXB);
    let mut s = filled_stack(&b, n);
    let grp = group(2);   // 1: the assertions that belong to C18 alone (so that they cannot hide the C16 ones)
    assert!(s.len() == n, "C16/C18: StackCoder::len must be the number of bits on the stack");
    if grp == 1 { assert!(s.is_empty() == (n == 0), "C18: StackCoder::is_empty wrong"); return; }
    let x: bool = any();
    if s.write_bit(x).is_err() { return; }
    assert!(s.len() == n + 1, "C16/C18: len after write_bit");
    assert!(s.read_bit().unwrap() == Some(x), "C16: read_bit must return the bit just written");
    assert!(s.len() == n, "C16/C18: len after read_bit");
    let r = s.read_bit().unwrap();
    if n == 0 {
        assert!(r.is_none(), "C16: reading an empty stack must yield None");
        assert!(s.read_bit().unwrap().is_none() && s.len() == 0, "C16: end must be sticky");
    } else {
        assert!(r == Some(b[n - 1]), "C16: stack must return bits in reverse order");
        assert!(s.len() == n - 1, "C16/C18: len after second read");
    }
    cover!(n == 8, "current word exactly full");
    cover!(n == 9, "one bit into the second word");
}

/// C16: into_compressed() yields exactly the LSB-first packing with a terminating 1 bit, and
/// from_compressed() of those words is a stack with the same content (all n bits come back in
/// reverse order, then None), for every bit pattern and fill level.
#[cfg_attr(kani, kani::proof)]
#[cfg_attr(kani, kani::unwind(13))]
pub fn stack_export_import() {
    let b = any_arr::<bool, { MAXB + 2 }>();
    let n: usize = any(); assume(n <= MAXB);
    let s = filled_stack(&b, n);
    let words = match s.into_compressed() { Ok(w) => w, Err(_) => { assert!(false, "C16: export failed"); return; } };
    let (spec, nw) = spec_words(&b, n, true);
    assert!(words.n == nw, "C16: exported stack has the wrong number of words");
    let mut i = 0; while i < nw { assert!(words.buf[i] == spec[i], "C16: exported stack words differ from LSB-first packing with end marker"); i += 1; }
    let mut t = match StackCoder::<u8, SArr>::from_compressed(words) { Ok(t) => t, Err(_) => { assert!(false, "C16: re-import of an exported stack refused"); return; } };
    assert!(t.len() == n, "C16: re-imported stack reports a different length");
    let mut i = n;
    while i > 0 { assert!(t.read_bit().unwrap() == Some(b[i - 1]), "C16: re-imported stack content differs"); i -= 1; }
    assert!(t.read_bit().unwrap().is_none(), "C16: re-imported stack has extra bits");
    cover!(n == 7, "marker is the top bit of the word");
    cover!(n == 8, "marker needs a fresh word");
}

/// C16: a stack re-imported from words is a stack like any other: a bit pushed after the import
/// pops back unchanged and the imported bits below it are untouched (the end marker must not
/// linger in the partial word).
#[cfg_attr(kani, kani::proof)]
#[cfg_attr(kani, kani::unwind(13))]
pub fn stack_import_then_push() {
    let w0: u8 = any(); let w1: u8 = any(); let two: bool = any();
    assume(w1 != 0);
    let src = if two { SArr::from_slice(&[w0, w1]) } else { SArr::from_slice(&[w1]) };
    let mut t = match StackCoder::<u8, SArr>::from_compressed(src) { Ok(t) => t, Err(_) => { assert!(false, "C16: import refused although the last word is not zero"); return; } };
    let top = 7 - w1.leading_zeros() as usize;
    let n0 = t.len();
    let x: bool = any(); let y: bool = any();
    if t.write_bit(x).is_err() || t.write_bit(y).is_err() { return; }
    assert!(t.len() == n0 + 2, "C16/C18: length after two pushes onto an imported stack");
    assert!(t.read_bit().unwrap() == Some(y), "C16: bit pushed onto an imported stack does not pop back unchanged");
    assert!(t.read_bit().unwrap() == Some(x), "C16: bit pushed onto an imported stack does not pop back unchanged");
    if top > 0 { assert!(t.read_bit().unwrap() == Some((w1 >> (top - 1)) & 1 == 1), "C16: imported bits changed by a push/pop pair"); }
    cover!(top == 7, "marker is the top bit of the imported word");
    cover!(top == 0, "imported word holds only the marker");
}

/// C16: from_compressed on an arbitrary last word: zero word refused; otherwise the stack holds
/// the bits below the highest set bit of the last word, on top of 8 bits per earlier word.
#[cfg_attr(kani, kani::proof)]
#[cfg_attr(kani, kani::unwind(13))]
pub fn stack_import_any() {
    let w0: u8 = any(); let w1: u8 = any(); let two: bool = any();
    let src = if two { SArr::from_slice(&[w0, w1]) } else { SArr::from_slice(&[w1]) };
    match StackCoder::<u8, SArr>::from_compressed(src) {
        Err(CoderError::Frontend(_)) => assert!(w1 == 0, "C16: import refused although the last word is not zero"),
        Err(_) => assert!(false, "C16: undocumented error"),
        Ok(mut t) => {
            assert!(w1 != 0, "C16: import accepted a zero last word");
            let top = 7 - w1.leading_zeros() as usize; // index of the end marker
            assert!(t.len() == top + if two { 8 } else { 0 }, "C16/C18: imported stack length must be the number of bits below the end marker");
            let mut i = top;
            while i > 0 { assert!(t.read_bit().unwrap() == Some((w1 >> (i - 1)) & 1 == 1), "C16: imported stack bits differ from the word below its end marker"); i -= 1; }
            if two { assert!(t.read_bit().unwrap() == Some(w0 >> 7 == 1), "C16: imported stack must continue with the previous word's top bit"); }
            else { assert!(t.read_bit().unwrap().is_none(), "C16: imported stack has extra bits"); }
        }
    }
}

/// C08: StackCoder::get_compressed shows exactly the words into_compressed() would return and,
/// once dropped, leaves the coder observationally untouched (continuing to write and exporting
/// gives the same words as an uninspected twin).
#[cfg_attr(kani, kani::proof)]
#[cfg_attr(kani, kani::unwind(13))]
pub fn stack_guard() {
    let b0 = any_arr::<bool, { MAXB + 2 }>();
    let n: usize = any(); assume(n <= MAXB);
    let mut s = StackCoder::<u8, Vec<u8>>::with_bit_capacity(32);
    let mut i = 0; while i < n { s.write_bit(b0[i]).unwrap(); i += 1; }
    let (spec, nw) = spec_words(&b0, n, true);
    // independent assertion groups (kx::group): 0 what the view shows, 1 the coder after the view is dropped
    let grp = group(2);
    {
        let g = s.get_compressed();
        if grp == 0 {
            assert!(g.len() == nw, "C08: StackCoder guard shows a different number of words than exporting would");
            let mut i = 0; while i < nw { assert!(g[i] == spec[i], "C08: StackCoder guard view differs from the export"); i += 1; }
        }
    }
    if grp == 0 { return; }
    assert!(s.len() == n, "C08/C18/C16: inspecting changed the stack length");
    let x: bool = any();
    s.write_bit(x).unwrap();
    let mut b = b0; b[n] = x;
    let words = s.into_compressed().unwrap();
    let (spec, nw) = spec_words(&b, n + 1, true);
    assert!(words.len() == nw, "C08/C16: export after inspection has a different length than the uninspected twin");
    let mut i = 0; while i < nw { assert!(words[i] == spec[i], "C08/C16: export after inspection differs from the uninspected twin"); i += 1; }
    cover!(n == 8, "guard taken with the current word exactly full");
    cover!(n == 0, "guard on an empty coder");
}

type QArr = ArrQueue<u8, 4>;

/// C16/C18: queue encoder: export is the LSB-first packing zero padded (no marker); len() exact;
/// the decoder returns the bits in order, then only padding zeros of the last word, then None.
#[cfg_attr(kani, kani::proof)]
#[cfg_attr(kani, kani::unwind(13))]
pub fn queue_roundtrip() {
    let b = any_arr::<bool, { MAXB + 2 }>();
    let n: usize = any(); assume(n <= MAXB);
    let mut q = QueueEncoder::<u8, SArr>::new();
    let mut i = 0; while i < n { if q.write_bit(b[i]).is_err() { return; } i += 1; }
    let grp = group(2);   // 1: the assertions that belong to C18 alone
    assert!(q.len() == n, "C16/C18: QueueEncoder::len must be the number of bits written");
    if grp == 1 { assert!(q.is_empty() == (n == 0), "C18: QueueEncoder::is_empty wrong"); }
    let words = match q.into_compressed() { Ok(w) => w, Err(_) => { assert!(false, "C16: queue export failed"); return; } };
    let (spec, nw) = spec_words(&b, n, false);
    assert!(words.n == nw, "C16: exported queue has the wrong number of words");
    let mut i = 0; while i < nw { assert!(words.buf[i] == spec[i], "C16: exported queue words differ from LSB-first packing"); i += 1; }
    let mut d = QueueDecoder::<u8, QArr>::from_compressed(QArr::from_slice(&words.buf[..words.n]));
    if grp == 1 { assert!(d.maybe_exhausted() == (nw == 0), "C18: fresh QueueDecoder::maybe_exhausted must be true exactly when there are no words"); }
    let mut i = 0;
    while i < n { assert!(d.read_bit().unwrap() == Some(b[i]), "C16: queue must return bits in the order written"); i += 1; }
    if grp == 1 { assert!(d.maybe_exhausted(), "C18: queue decoder must report maybe_exhausted after the last written bit"); return; }
    let mut i = n;
    while i < nw * 8 { assert!(d.read_bit().unwrap() == Some(false), "C16: padding must be zero bits"); i += 1; }
    assert!(d.read_bit().unwrap().is_none(), "C16: queue decoder must end after the last word");
    assert!(d.read_bit().unwrap().is_none(), "C16: queue end must be sticky");
    cover!(n == 8, "exactly one full word");
}
fn spec_all_zero(s: &[u8; 3], nw: usize) -> bool { let mut i = 0; while i < nw { if s[i] != 0 { return false; } i += 1; } true }

/// C08: QueueEncoder::get_compressed view == export; dropping it leaves the encoder untouched.
#[cfg_attr(kani, kani::proof)]
#[cfg_attr(kani, kani::unwind(13))]
pub fn queue_guard() {
    let b0 = any_arr::<bool, { MAXB + 2 }>();
    let n: usize = any(); assume(n <= MAXB);
    let mut q = QueueEncoder::<u8, Vec<u8>>::with_bit_capacity(32);
    let mut i = 0; while i < n { q.write_bit(b0[i]).unwrap(); i += 1; }
    let (spec, nw) = spec_words(&b0, n, false);
    let grp = group(2);
    {
        let g = q.get_compressed();
        if grp == 0 {
            assert!(g.len() == nw, "C08: QueueEncoder guard shows a different number of words than exporting would");
            let mut i = 0; while i < nw { assert!(g[i] == spec[i], "C08: QueueEncoder guard view differs from the export"); i += 1; }
        }
    }
    if grp == 0 { return; }
    let x: bool = any();
    q.write_bit(x).unwrap();
    let mut b = b0; b[n] = x;
    let words = q.into_compressed().unwrap();
    let (spec, nw) = spec_words(&b, n + 1, false);
    assert!(words.len() == nw, "C08/C16: queue export after inspection has a different length");
    let mut i = 0; while i < nw { assert!(words[i] == spec[i], "C08/C16: queue export after inspection differs from the uninspected twin"); i += 1; }
    cover!(n == 8, "guard taken with the current word exactly full");
}

/// spec of the Exp-Golomb codeword of v (order 0): k zeros, then the k+1 bits of v+1, MSB first
pub fn spec_exp_golomb(v: u64, width: u32, out: &mut [bool; 40]) -> usize {
    let np1 = (v as u128) + 1;
    let k = 127 - np1.leading_zeros() as usize;
    let mut n = 0;
    let mut i = 0; while i < k { out[n] = false; n += 1; i += 1; }
    let mut i = k + 1; while i > 0 { out[n] = (np1 >> (i - 1)) & 1 == 1; n += 1; i -= 1; }
    let _ = width;
    n
}

macro_rules! exp_golomb_harness {
    ($name:ident, $T:ty, $unw:expr) => {
        /// C16: Exp-Golomb round trip for EVERY value of the type (incl. MAX): prefix form through
        /// queue encoder/decoder and suffix form through the stack coder; the emitted bits are the
        /// textbook codeword.
        #[cfg_attr(kani, kani::proof)]
        #[cfg_attr(kani, kani::unwind($unw))]
        pub fn $name() {
            let v: $T = any();
            let cb = ExpGolomb::<$T>::new();
            let mut spec = [false; 40];
            let ns = spec_exp_golomb(v as u64, <$T>::BITS, &mut spec);
            // queue (prefix)
            let mut q = QueueEncoder::<u8, ArrStack<u8, 6>>::new();
            if q.encode_symbol(v, &cb).is_err() { assert!(false, "C16: Exp-Golomb encode failed"); return; }
            assert!(q.len() == ns, "C16: Exp-Golomb codeword length differs from 2*floor(log2(v+1))+1");
            let words = q.into_compressed().unwrap();
            let mut d = QueueDecoder::<u8, ArrQueue<u8, 6>>::from_compressed(ArrQueue::<u8, 6>::from_slice(&words.buf[..words.n]));
            let mut i = 0; while i < ns { assert!(((words.buf[i / 8] >> (i % 8)) & 1 == 1) == spec[i], "C16: Exp-Golomb prefix bits differ from the textbook codeword"); i += 1; }
            match d.decode_symbol(&cb) { Ok(r) => assert!(r == v, "C16: Exp-Golomb queue round trip changed the value"), Err(_) => assert!(false, "C16: Exp-Golomb decode failed") }
            // stack (suffix form, read back as prefix)
            let mut s = StackCoder::<u8, ArrStack<u8, 6>>::new();
            if s.encode_symbol(v, &cb).is_err() { assert!(false, "C16: Exp-Golomb stack encode failed"); return; }
            assert!(s.len() == ns, "C16: Exp-Golomb suffix length differs");
            match s.decode_symbol(&cb) { Ok(r) => assert!(r == v, "C16: Exp-Golomb stack round trip changed the value"), Err(_) => assert!(false, "C16: Exp-Golomb stack decode failed") }
            assert!(s.is_empty(), "C16: Exp-Golomb stack decode must consume exactly the codeword");
            cover!(v == <$T>::MAX, "maximum value");
            cover!(v == 0, "zero");
        }
    };
}
exp_golomb_harness!(exp_golomb_u8, u8, 20);
exp_golomb_harness!(exp_golomb_u16, u16, 36);

/// C16: interleaved reads and writes: after any n <= 10 writes, k <= 2 reads and one more write,
/// the export is exactly the packing of b[0..n-k] ++ [y] (no stale bits survive a pop) and the
/// pushed bit reads back.
#[cfg_attr(kani, kani::proof)]
#[cfg_attr(kani, kani::unwind(13))]
pub fn stack_pop_then_push() {
    let b0 = any_arr::<bool, { MAXB + 2 }>();
    let n: usize = any(); assume(n <= MAXB);
    let k: usize = any(); assume(k <= 2 && k <= n);
    let mut s = filled_stack(&b0, n);
    let mut i = 0; while i < k { assert!(s.read_bit().unwrap() == Some(b0[n - 1 - i]), "C16: stack must return bits in reverse order"); i += 1; }
    let y: bool = any();
    if s.write_bit(y).is_err() { return; }
    assert!(s.len() == n - k + 1, "C16/C18: len after pops and a push");
    let mut b = b0; b[n - k] = y;
    {
        let mut t = filled_stack(&b0, n);
        let mut i = 0; while i < k { let _ = t.read_bit(); i += 1; }
        if t.write_bit(y).is_err() { return; }
        assert!(t.read_bit().unwrap() == Some(y), "C16: a bit pushed after pops must read back unchanged");
    }
    let words = match s.into_compressed() { Ok(w) => w, Err(_) => return };
    let (spec, nw) = spec_words(&b, n - k + 1, true);
    assert!(words.n == nw, "C16: export after pops and a push has the wrong number of words");
    let mut i = 0; while i < nw { assert!(words.buf[i] == spec[i], "C16: export after pops and a push differs from the packing of the remaining bits (stale bits)"); i += 1; }
    cover!(k == 2 && n == 9, "pops cross the word boundary");
}

/// C16 / C08: decoders and iterators derived from the bit coders (Vec backend): as_decoder / iter
/// pop the bits in reverse order and leave the coder untouched; into_decoder / into_iterator do
/// the same by value; the queue encoder's into_decoder yields the bits in the order written.
#[cfg_attr(kani, kani::proof)]
#[cfg_attr(kani, kani::unwind(13))]
pub fn derived_decoders() {
    let b = any_arr::<bool, { MAXB + 2 }>();
    let n: usize = any(); assume(n <= MAXB);
    let grp = group(3);
    if grp == 2 {
        let mut q = QueueEncoder::<u8, Vec<u8>>::with_bit_capacity(32);
        let mut i = 0; while i < n { q.write_bit(b[i]).unwrap(); i += 1; }
        let mut d = match q.into_decoder() { Ok(d) => d, Err(_) => return };
        let mut i = 0; while i < n { assert!(matches!(d.read_bit(), Ok(Some(x)) if x == b[i]), "C16: queue into_decoder must return the bits in the order written"); i += 1; }
        return;
    }
    let mut s = StackCoder::<u8, Vec<u8>>::with_bit_capacity(32);
    let mut i = 0; while i < n { s.write_bit(b[i]).unwrap(); i += 1; }
    if grp == 0 {
        {
            let mut d = s.as_decoder();
            let mut i = n; while i > 0 { assert!(matches!(d.read_bit(), Ok(Some(x)) if x == b[i - 1]), "C16/C08: as_decoder must pop the bits in reverse order"); i -= 1; }
            assert!(matches!(d.read_bit(), Ok(None)), "C16/C08: as_decoder sees more bits than were written");
        }
        assert!(s.len() == n, "C08/C16: as_decoder changed the coder");
        let mut k = 0usize;
        for r in s.iter() { assert!(k < n && matches!(r, Ok(x) if x == b[n - 1 - k]), "C16/C08: iter must yield the bits in reverse order"); k += 1; }
        assert!(k == n, "C16/C08: iter yields a different number of bits than were written");
        assert!(s.len() == n, "C08/C16: iter changed the coder");
    } else {
        let mut d = s.into_decoder();
        let mut i = n; while i > 0 { assert!(matches!(d.read_bit(), Ok(Some(x)) if x == b[i - 1]), "C16: into_decoder must pop the bits in reverse order"); i -= 1; }
        assert!(matches!(d.read_bit(), Ok(None)), "C16: into_decoder sees more bits than were written");
    }
}
