//! Contract stubs (DESIGN §4): the ghost entropy model and the ghost word stack/queue in
//! their executable (Kani) form. A coder step consults the model once and touches at most
//! one word of the backend, so a single symbolic entry and a small symbolic window of the
//! backend are complete for single-step obligations.
use crate::kx::*;
use constriction::backends::*;
use constriction::stream::model::*;
use constriction::{BitArray, NonZeroBitArray, Pos, PosSeek, Queue, Seek, Stack};
use core::convert::Infallible;

/// Ghost entropy model: one symbolic in-support entry `(sym, cum, prob)`; every quantile
/// outside `[cum, cum+prob)` belongs to some other symbol `!sym` with a valid interval.
#[derive(Clone, Copy, Debug)]
pub struct Entry<Pr: BitArray, const P: usize> {
    pub sym: u16,
    pub cum: Pr,
    pub prob: Pr::NonZero,
}
impl<Pr: BitArray, const P: usize> EntropyModel<P> for Entry<Pr, P> {
    type Symbol = u16;
    type Probability = Pr;
}
impl<Pr: BitArray, const P: usize> EncoderModel<P> for Entry<Pr, P> {
    fn left_cumulative_and_probability(
        &self,
        s: impl core::borrow::Borrow<u16>,
    ) -> Option<(Pr, Pr::NonZero)> {
        if *s.borrow() == self.sym { Some((self.cum, self.prob)) } else { None }
    }
}
impl<Pr: BitArray + Into<u64>, const P: usize> DecoderModel<P> for Entry<Pr, P>
where
    u64: num_traits::AsPrimitive<Pr>,
{
    fn quantile_function(&self, q: Pr) -> (u16, Pr, Pr::NonZero) {
        use num_traits::AsPrimitive;
        let q: u64 = q.into();
        let lo: u64 = self.cum.into();
        let hi: u64 = lo + self.prob.get().into();
        if q >= lo && q < hi {
            (self.sym, self.cum, self.prob)
        } else if q < lo {
            (!self.sym, Pr::zero(), Pr::NonZero::new(self.cum).unwrap())
        } else {
            let rest: u64 = (1u64 << P) - hi;
            (!self.sym, hi.as_(), Pr::NonZero::new(rest.as_()).unwrap())
        }
    }
}

/// Any well-formed entry: `1 <= p`, `cum + p <= 2^P`; with `allow_full == false`
/// additionally `p < 2^P` (documented constraint: no symbol has probability one).
pub fn any_entry<Pr, const P: usize>(allow_full: bool) -> Entry<Pr, P>
where
    Pr: BitArray + Into<u64> + Sym,
{
    let cum: Pr = any();
    let p: Pr = any();
    let c64: u64 = cum.into();
    let p64: u64 = p.into();
    assume(p64 >= 1 && c64 + p64 <= (1u64 << P));
    if !allow_full {
        assume(p64 < (1u64 << P));
    }
    Entry { sym: any(), cum, prob: Pr::NonZero::new(p).unwrap() }
}

/// Ghost word stack: fixed-capacity array window; `n` live words; writes fail (and leave
/// the content untouched) once `cap` words are stored.
#[derive(Clone, Copy, Debug, PartialEq, Eq)]
pub struct ArrStack<W: Copy, const N: usize> {
    pub buf: [W; N],
    pub n: usize,
    pub cap: usize,
}
impl<W: Copy + Default, const N: usize> Default for ArrStack<W, N> {
    fn default() -> Self { ArrStack { buf: [W::default(); N], n: 0, cap: N } }
}
impl<W: Copy + Default, const N: usize> ArrStack<W, N> {
    pub fn from_slice(s: &[W]) -> Self {
        let mut a = Self::default();
        let mut i = 0;
        while i < s.len() { a.buf[i] = s[i]; i += 1; }
        a.n = s.len();
        a
    }
    pub fn live(&self) -> &[W] { &self.buf[..self.n] }
}
impl<W: Copy + Default + Sym, const N: usize> ArrStack<W, N> {
    /// symbolic content, symbolic fill level `n <= max_n`, full capacity
    pub fn any_upto(max_n: usize) -> Self {
        let buf = any_arr::<W, N>();
        let n: usize = any();
        assume(n <= max_n && max_n <= N);
        ArrStack { buf, n, cap: N }
    }
}
impl<W: Copy, const N: usize> WriteWords<W> for ArrStack<W, N> {
    type WriteError = ();
    fn write(&mut self, w: W) -> Result<(), ()> {
        if self.n < self.cap && self.n < N { self.buf[self.n] = w; self.n += 1; Ok(()) } else { Err(()) }
    }
    fn maybe_full(&self) -> bool { self.n >= self.cap }
}
impl<W: Copy, const N: usize> BoundedWriteWords<W> for ArrStack<W, N> {
    fn space_left(&self) -> usize { self.cap.min(N) - self.n.min(self.cap.min(N)) }
}
impl<W: Copy, const N: usize> ReadWords<W, Stack> for ArrStack<W, N> {
    type ReadError = Infallible;
    fn read(&mut self) -> Result<Option<W>, Infallible> {
        if self.n == 0 { Ok(None) } else { self.n -= 1; Ok(Some(self.buf[self.n])) }
    }
    fn maybe_exhausted(&self) -> bool { self.n == 0 }
}
impl<W: Copy, const N: usize> BoundedReadWords<W, Stack> for ArrStack<W, N> {
    fn remaining(&self) -> usize { self.n }
}
impl<W: Copy, const N: usize> PosSeek for ArrStack<W, N> { type Position = usize; }
impl<W: Copy, const N: usize> Pos for ArrStack<W, N> { fn pos(&self) -> usize { self.n } }
impl<W: Copy, const N: usize> Seek for ArrStack<W, N> {
    fn seek(&mut self, pos: usize) -> Result<(), ()> {
        if pos <= self.n { self.n = pos; Ok(()) } else { Err(()) }
    }
}

/// Ghost word queue: `n` words stored, read position `pos`; also a sink (append at `n`).
#[derive(Clone, Copy, Debug, PartialEq, Eq)]
pub struct ArrQueue<W: Copy, const N: usize> {
    pub buf: [W; N],
    pub n: usize,
    pub pos: usize,
    pub cap: usize,
}
impl<W: Copy + Default, const N: usize> Default for ArrQueue<W, N> {
    fn default() -> Self { ArrQueue { buf: [W::default(); N], n: 0, pos: 0, cap: N } }
}
impl<W: Copy + Default, const N: usize> ArrQueue<W, N> {
    pub fn from_slice(s: &[W]) -> Self {
        let mut a = Self::default();
        let mut i = 0;
        while i < s.len() { a.buf[i] = s[i]; i += 1; }
        a.n = s.len();
        a
    }
    pub fn live(&self) -> &[W] { &self.buf[..self.n] }
}
impl<W: Copy, const N: usize> WriteWords<W> for ArrQueue<W, N> {
    type WriteError = ();
    fn write(&mut self, w: W) -> Result<(), ()> {
        if self.n < self.cap && self.n < N { self.buf[self.n] = w; self.n += 1; Ok(()) } else { Err(()) }
    }
    fn maybe_full(&self) -> bool { self.n >= self.cap }
}
impl<W: Copy, const N: usize> ReadWords<W, Queue> for ArrQueue<W, N> {
    type ReadError = Infallible;
    fn read(&mut self) -> Result<Option<W>, Infallible> {
        if self.pos < self.n { self.pos += 1; Ok(Some(self.buf[self.pos - 1])) } else { Ok(None) }
    }
    fn maybe_exhausted(&self) -> bool { self.pos >= self.n }
}
impl<W: Copy, const N: usize> BoundedReadWords<W, Queue> for ArrQueue<W, N> {
    fn remaining(&self) -> usize { self.n - self.pos }
}
impl<W: Copy, const N: usize> PosSeek for ArrQueue<W, N> { type Position = usize; }
impl<W: Copy, const N: usize> Pos for ArrQueue<W, N> { fn pos(&self) -> usize { self.pos } }
impl<W: Copy, const N: usize> Seek for ArrQueue<W, N> {
    fn seek(&mut self, pos: usize) -> Result<(), ()> {
        if pos <= self.n { self.pos = pos; Ok(()) } else { Err(()) }
    }
}

/// A word stack whose `Position` is its whole content: `seek(snapshot)` installs a snapshot and
/// `pos()` returns one.  Lets a harness put a coder with private fields into an arbitrary state
/// through the public `Seek`/`Pos` traits.
#[derive(Clone, Copy, Debug, PartialEq, Eq)]
pub struct SnapStack<W: Copy, const N: usize>(pub ArrStack<W, N>);
impl<W: Copy + Default, const N: usize> Default for SnapStack<W, N> { fn default() -> Self { SnapStack(ArrStack::default()) } }
impl<W: Copy, const N: usize> WriteWords<W> for SnapStack<W, N> {
    type WriteError = ();
    fn write(&mut self, w: W) -> Result<(), ()> { self.0.write(w) }
    fn maybe_full(&self) -> bool { self.0.maybe_full() }
}
impl<W: Copy, const N: usize> ReadWords<W, Stack> for SnapStack<W, N> {
    type ReadError = Infallible;
    fn read(&mut self) -> Result<Option<W>, Infallible> { ReadWords::<W, Stack>::read(&mut self.0) }
    fn maybe_exhausted(&self) -> bool { self.0.n == 0 }
}
impl<W: Copy, const N: usize> BoundedReadWords<W, Stack> for SnapStack<W, N> { fn remaining(&self) -> usize { self.0.n } }
impl<W: Copy, const N: usize> PosSeek for SnapStack<W, N> { type Position = ArrStack<W, N>; }
impl<W: Copy, const N: usize> Pos for SnapStack<W, N> { fn pos(&self) -> ArrStack<W, N> { self.0 } }
impl<W: Copy, const N: usize> Seek for SnapStack<W, N> { fn seek(&mut self, p: ArrStack<W, N>) -> Result<(), ()> { self.0 = p; Ok(()) } }
