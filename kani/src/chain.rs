//! Chain coder (src/stream/chain.rs): single-step contracts from arbitrary heads (installed
//! through `Seek` + the cfg(constriction_verif) hook) and bounded export/import routes.
//! C13 (decode∘encode and encode∘decode are identities), C14 (locality), C09, C10, C20.
use crate::cover;
use crate::kx::*;
use crate::stubs::*;
use constriction::stream::chain::*;
use constriction::stream::{Code, Decode, Encode};
use constriction::{BitArray, CoderError, NonZeroBitArray, Pos, Seek};

macro_rules! chain_harnesses {
    ($modname:ident, $W:ty, $S:ty, $P:expr, $solver:ident) => {
        pub mod $modname {
            use super::*;
            type W = $W; type S = $S;
            const P: usize = $P;
            const WB: u32 = <$W>::BITS; const SB: u32 = <$S>::BITS;
            type A = ArrStack<W, 4>;
            type B = SnapStack<W, 4>;
            type C = ChainCoder<W, S, B, B, P>;
            type H = ChainCoderHeads<W, S, P>;

            #[derive(Clone, Copy)]
            pub struct St { pub comp: A, pub rem: A, pub ch: W, pub r: S }
            fn same(a: &A, b: &A) -> bool { if a.n != b.n { return false; } let mut i = 0; while i < a.n { if a.buf[i] != b.buf[i] { return false; } i += 1; } true }
            fn st_eq(a: &St, b: &St) -> bool { same(&a.comp, &b.comp) && same(&a.rem, &b.rem) && a.ch == b.ch && a.r == b.r }

            /// any chain coder satisfying the documented head invariants (chain.rs:248-258):
            /// compressed head nonzero; 2^(sb-wb-P) <= remainders head < 2^(sb-P).
            pub fn any_state() -> St {
                let comp = A::any_upto(2); let rem = A::any_upto(2);
                let ch: W = any(); let r: S = any();
                assume(ch != 0);
                assume((r as u128) >= (1u128 << (SB - WB - P as u32)) && (r as u128) < (1u128 << (SB - P as u32)));
                St { comp, rem, ch, r }
            }
            pub fn mk(s: &St) -> C {
                let mut seed = A::default(); seed.n = 4;
                let mut c: C = match C::from_binary(SnapStack(seed)) { Ok(c) => c, Err(_) => { assume(false); unreachable!() } };
                let heads = H::from_raw_parts_for_verification(<W as BitArray>::NonZero::new(s.ch).unwrap(), s.r);
                if c.seek((BackendPosition { compressed: s.comp, remainders: s.rem }, heads)).is_err() { assume(false); }
                c
            }
            pub fn obs(c: &C) -> St {
                let (pos, heads) = c.pos();
                let (ch, r) = heads.into_raw_parts_for_verification();
                St { comp: pos.compressed, rem: pos.remainders, ch: ch.get(), r }
            }
            pub fn inv(s: &St) -> bool { s.ch != 0 && (s.r as u128) >= (1u128 << (SB - WB - P as u32)) && (s.r as u128) < (1u128 << (SB - P as u32)) }

            /// layer-A spec of the compressed side of one decode: the next P-bit chunk of the bit
            /// string (head bits below the marker, refilled from the top word).
            /// returns None if a word is needed and none is available, else (quantile, new head, words consumed)
            pub fn spec_chunk(ch: W, comp: &A) -> Option<(u128, u128, usize)> {
                let ch = ch as u128;
                if P as u32 == WB || ch < (1u128 << P) {
                    if comp.n == 0 { return None; }
                    let w = comp.buf[comp.n - 1] as u128;
                    if P as u32 == WB { Some((w, ch, 1)) } else { Some((w & ((1u128 << P) - 1), (ch << (WB - P as u32)) | (w >> P), 1)) }
                } else { Some((ch & ((1u128 << P) - 1), ch >> P, 0)) }
            }

            /// C14 + C10 + C20: decode_symbol from any invariant state: the symbol is what the model
            /// assigns to the next P-bit chunk of the compressed side; the new compressed side and
            /// the out-of-data condition are functions of the compressed side alone (no remainders,
            /// no model); totality; head invariants preserved; remainders step == r*p + (q-cum) with
            /// a flush of the low word iff >= 2^(sb-P).
            #[cfg_attr(kani, kani::proof)]
            #[cfg_attr(kani, kani::unwind(6))]
            #[cfg_attr(kani, kani::solver($solver))]
            pub fn dec_step() {
                let s0 = any_state();
                let e = any_entry::<W, P>(true);
                let mut c = mk(&s0);
                let r = c.decode_symbol(e);
                let s1 = obs(&c);
                match spec_chunk(s0.ch, &s0.comp) {
                    None => {
                        assert!(matches!(r, Err(CoderError::Frontend(DecoderFrontendError::OutOfCompressedData))), "C14/C13: running out of compressed data must be reported as OutOfCompressedData");
                        assert!(st_eq(&s0, &s1), "C13: failed decode changed the chain coder");
                    }
                    Some((q, ch1, used)) => {
                        let inside = q >= e.cum as u128 && q < e.cum as u128 + e.prob.get() as u128;
                        match r {
                            Ok(sym) => {
                                // independent assertion groups (kx::group): 0 locality, 1 invariant / totality, 2 remainders side
                                let grp = group(3);
                                if grp == 0 {
                                    assert!((sym == e.sym) == inside, "C14: decoded symbol is not the model's symbol for the next P-bit chunk");
                                    assert!(s1.ch as u128 == ch1 && s1.comp.n + used == s0.comp.n, "C14: compressed side after decode is not 'old minus one chunk'");
                                }
                                if grp == 1 {
                                    assert!(sym == e.sym || sym == !e.sym, "C10: chain decoder returned a symbol outside the model");
                                    assert!(inv(&s1), "C10/C20: chain coder head invariant lost after decode");
                                }
                                if inside && grp == 2 {
                                    let t = s0.r as u128 * e.prob.get() as u128 + (q - e.cum as u128);
                                    if t >= (1u128 << (SB - P as u32)) {
                                        assert!(s1.rem.n == s0.rem.n + 1 && s1.rem.buf[s0.rem.n] as u128 == (t & ((1u128 << WB) - 1)) && s1.r as u128 == t >> WB, "C13: remainders flush differs from spec");
                                    } else { assert!(s1.rem.n == s0.rem.n && s1.r as u128 == t, "C13: remainders head differs from spec"); }
                                }
                            }
                            Err(_) => assert!(false, "C10: chain decode failed although data is available"),
                        }
                        cover!(used == 1 && inside, "word consumed");
                        cover!((P as u32) == WB || (used == 0 && inside), "chunk taken from the head (or P == word size)");
                    }
                }
            }

            /// C13/C14: from_binary / from_compressed initialise the remainders head with the FEWEST words
            /// that make it reach 2^(sb-wb-P) (none if the pushed 1 already does), leave the rest of the
            /// data as the compressed side, start with an empty compressed head, and fail iff the data
            /// cannot fill the head (from_compressed: or its last word is zero).
            #[cfg_attr(kani, kani::proof)]
            #[cfg_attr(kani, kani::unwind(8))]
            pub fn new_heads() {
                let data = A::any_upto(4);
                let push_one: bool = any();
                let r = if push_one { C::from_binary(SnapStack(data)) } else { C::from_compressed(SnapStack(data)) };
                // spec
                let th: u128 = 1u128 << (SB - WB - P as u32);
                let mut n = data.n; let mut ok = true;
                let mut head: u128 = if push_one { 1 } else if n > 0 && data.buf[n - 1] != 0 { n -= 1; data.buf[n] as u128 } else { ok = false; 0 };
                while ok && head < th { if n == 0 { ok = false; } else { n -= 1; head = (head << WB) | data.buf[n] as u128; } }
                match r {
                    Err(CoderError::Frontend(_)) => assert!(!ok, "C13: chain coder refused data that can fill its remainders head"),
                    Err(_) => assert!(false, "C13: undocumented error"),
                    Ok(c) => {
                        let s = obs(&c);
                        if group(2) == 1 { assert!(inv(&s), "C20/C10: fresh chain coder violates the head invariant (the next decode may overflow)"); return; }
                        assert!(ok, "C13: chain coder accepted data that cannot fill its remainders head");
                        assert!(s.ch == 1, "C13/C14: a fresh chain coder must start with an empty compressed head");
                        assert!(s.r as u128 == head && s.comp.n == n, "C13/C14: remainders head must take the fewest words that reach its lower bound");
                        assert!(s.rem.n == 0, "C13: a fresh chain coder must start with empty remainders");
                    }
                }
            }

            /// C13: the export routes from ANY whole head state: into_compressed appends ALL words of the
            /// remainders head (low word first, until nothing is left) to the compressed side;
            /// into_binary succeeds exactly when the head's marker bit sits on a word boundary and then
            /// appends the words below the marker (also zero words); remainders are handed back as they are.
            #[cfg_attr(kani, kani::proof)]
            #[cfg_attr(kani, kani::unwind(8))]
            pub fn exports() {
                let s0 = any_state();
                assume(s0.ch == 1 && s0.comp.n <= 1);
                let bin: bool = any();
                let c = mk(&s0);
                let r = s0.r as u128;
                let mut exp = [0 as W; 8]; let mut k = 0;
                let mut i = 0; while i < s0.comp.n { exp[k] = s0.comp.buf[i]; k += 1; i += 1; }
                if bin {
                    let marker = 127 - r.leading_zeros() as usize;
                    let whole = marker % WB as usize == 0;
                    let mut v = r; while v > 1 && whole { exp[k] = (v & ((1u128 << WB) - 1)) as W; k += 1; v >>= WB; }
                    match c.into_binary() {
                        Ok((rem, comp)) => {
                            assert!(whole, "C13: into_binary accepted a head whose marker is not on a word boundary");
                            assert!(comp.0.n == k && rem.0.n == s0.rem.n, "C13: into_binary returns the wrong number of words");
                            let mut i = 0; while i < k { assert!(comp.0.buf[i] == exp[i], "C13: into_binary words differ from compressed ++ head words below the marker"); i += 1; }
                        }
                        Err(_) => assert!(!whole, "C13: into_binary refused a whole head"),
                    }
                } else {
                    let mut v = r; while v != 0 { exp[k] = (v & ((1u128 << WB) - 1)) as W; k += 1; v >>= WB; }
                    match c.into_compressed() {
                        Ok((rem, comp)) => {
                            assert!(comp.0.n == k && rem.0.n == s0.rem.n, "C13: into_compressed returns the wrong number of words");
                            let mut i = 0; while i < k { assert!(comp.0.buf[i] == exp[i], "C13: into_compressed words differ from compressed ++ all words of the head"); i += 1; }
                        }
                        Err(_) => assert!(false, "C13: into_compressed refused a whole coder"),
                    }
                }
            }

            /// C13: decode then encode the decoded symbol with the same model restores heads and
            /// both backends exactly.
            #[cfg_attr(kani, kani::proof)]
            #[cfg_attr(kani, kani::unwind(6))]
            #[cfg_attr(kani, kani::solver($solver))]
            pub fn dec_enc() {
                let s0 = any_state();
                let e = any_entry::<W, P>(false);
                let mut c = mk(&s0);
                let sym = match c.decode_symbol(e) { Ok(s) => s, Err(_) => return };
                assume(sym == e.sym);
                match c.encode_symbol(e.sym, e) { Ok(()) => {}, Err(_) => { assert!(false, "C13: re-encoding a just decoded symbol failed"); return; } }
                assert!(st_eq(&obs(&c), &s0), "C13: encode(decode(c)) != c");
                cover!(true, "reachable");
            }

            /// C13 (other direction) + C09: encode then decode restores; an impossible symbol or
            /// missing remainders are reported and leave the coder untouched.
            #[cfg_attr(kani, kani::proof)]
            #[cfg_attr(kani, kani::unwind(6))]
            #[cfg_attr(kani, kani::solver($solver))]
            pub fn enc_dec() {
                let s0 = any_state();
                let e = any_entry::<W, P>(false);
                let sym: u16 = any();
                let mut c = mk(&s0);
                let r = c.encode_symbol(sym, e);
                if sym != e.sym {
                    assert!(matches!(r, Err(CoderError::Frontend(EncoderFrontendError::ImpossibleSymbol))), "C09: chain coder did not reject an impossible symbol");
                    assert!(st_eq(&obs(&c), &s0), "C09: chain coder changed by a rejected symbol");
                    return;
                }
                let need_refill = (s0.r as u128) < ((e.prob.get() as u128) << (SB - WB - P as u32));
                if need_refill && s0.rem.n == 0 {
                    assert!(matches!(r, Err(CoderError::Frontend(EncoderFrontendError::OutOfRemainders))), "C13: running out of remainders must be reported as OutOfRemainders");
                    assert!(st_eq(&obs(&c), &s0), "C13: chain coder changed by a failed encode");
                    return;
                }
                assert!(r.is_ok(), "C13: chain encode failed");
                assert!(inv(&obs(&c)), "C20: chain coder head invariant lost after encode");
                match c.decode_symbol(e) { Ok(s) => assert!(s == e.sym, "C13: decode(encode(sym)) returned another symbol"), Err(_) => assert!(false, "C13: decode after encode failed") }
                let s2 = obs(&c);
                // the encoder consumed remainders that satisfy the decoder's flush rule only if they were produced by it;
                // for arbitrary remainders words the round trip restores everything when the refilled head is in range
                if !need_refill || ((((s0.r as u128) << WB) | s0.rem.buf[if s0.rem.n > 0 { s0.rem.n - 1 } else { 0 }] as u128) / (e.prob.get() as u128)) < (1u128 << (SB - P as u32)) {
                    assert!(st_eq(&s2, &s0), "C13: decode(encode(c)) != c");
                }
                cover!(need_refill, "refill");
            }
        }
    };
}
chain_harnesses!(u8_u16_p5, u8, u16, 5, kissat);
chain_harnesses!(u8_u16_p8, u8, u16, 8, kissat);
chain_harnesses!(u8_u16_p3, u8, u16, 3, kissat);
chain_harnesses!(u8_u32_p8, u8, u32, 8, kissat);   // only `exports` is registered at this width (State = 4 Words)

/// C13 (bounded): the three documented routes. from_binary(k words) -> decode 2 symbols ->
/// into_remainders -> from_remainders -> encode both back in reverse -> into_binary == the k words.
#[cfg_attr(kani, kani::proof)]
#[cfg_attr(kani, kani::unwind(10))]
#[cfg_attr(kani, kani::solver(kissat))]
pub fn route_remainders_u8_u16_p5() {
    const P: usize = 5;
    type A = ArrStack<u8, 6>;
    let data = any_arr::<u8, 4>();
    let k: usize = any(); assume(k >= 1 && k <= 4);
    let c = ChainCoder::<u8, u16, A, A, P>::from_binary(A::from_slice(&data[..k]));
    let mut c = match c { Ok(c) => c, Err(_) => return };
    let e0 = any_entry::<u8, P>(false); let e1 = any_entry::<u8, P>(false);
    let s0 = match c.decode_symbol(e0) { Ok(s) => s, Err(_) => return };
    let s1 = match c.decode_symbol(e1) { Ok(s) => s, Err(_) => return };
    assume(s0 == e0.sym && s1 == e1.sym);
    let (prefix, remainders) = match c.into_remainders() { Ok(x) => x, Err(_) => { assert!(false, "C13: into_remainders failed"); return; } };
    let mut c2 = match ChainCoder::<u8, u16, A, A, P>::from_remainders(remainders) { Ok(c) => c, Err(_) => { assert!(false, "C13: from_remainders refused exported remainders"); return; } };
    if c2.encode_symbol(e1.sym, e1).is_err() { assert!(false, "C13: re-encode failed"); return; }
    if c2.encode_symbol(e0.sym, e0).is_err() { assert!(false, "C13: re-encode failed"); return; }
    let (rem, comp) = match c2.into_binary() { Ok(x) => x, Err(_) => { assert!(false, "C13: into_binary failed after restoring all symbols"); return; } };
    assert!(rem.n == 0, "C13: remainders left over after restoring all symbols");
    // original data = unused prefix ++ re-encoded suffix
    assert!(prefix.n + comp.n == k, "C13: restored data has the wrong length");
    let mut i = 0; while i < prefix.n { assert!(prefix.buf[i] == data[i], "C13: unused prefix changed"); i += 1; }
    let mut j = 0; while j < comp.n { assert!(comp.buf[j] == data[prefix.n + j], "C13: restored words differ from the original data"); j += 1; }
}

/// C13 / C14 / C10: one precision change from ANY head state. Increasing keeps the compressed
/// side (head and words) and re-establishes the head invariant at the new precision; decreasing
/// fails with OutOfRemainders exactly when the head must be refilled and no remainders are left
/// (never a silent Ok), and otherwise re-establishes the invariant at the new precision.
#[cfg_attr(kani, kani::proof)]
#[cfg_attr(kani, kani::unwind(10))]
#[cfg_attr(kani, kani::solver(kissat))]
pub fn precision_step_u8_u16() {
    if group(2) == 0 {
        let s0 = u8_u16_p3::any_state();
        let c = u8_u16_p3::mk(&s0);
        let c5 = match c.change_precision::<5>() { Ok(c) => c, Err(_) => return };
        let s1 = u8_u16_p5::obs(&c5);
        assert!(s1.ch == s0.ch && s1.comp.n == s0.comp.n, "C14/C13: increasing the precision changed the compressed side (held-back bits lost)");
        assert!(u8_u16_p5::inv(&s1), "C13/C10/C20: head invariant lost by a precision increase");
    } else {
        let s0 = u8_u16_p5::any_state();
        let c = u8_u16_p5::mk(&s0);
        let need_refill = (s0.r as u32) < (1u32 << (16 - 3 - 8));
        match c.change_precision::<3>() {
            Ok(c3) => {
                let s1 = u8_u16_p3::obs(&c3);
                assert!(!(need_refill && s0.rem.n == 0), "C13: decreasing the precision without remainders to refill the head must fail, not succeed silently");
                assert!(s1.ch == s0.ch && s1.comp.n == s0.comp.n, "C14/C13: decreasing the precision changed the compressed side");
                assert!((s1.r as u32) >= (1u32 << (16 - 8 - 3)), "C13/C10/C20: head invariant (lower bound) lost by a precision decrease");
            }
            Err(_) => assert!(need_refill && s0.rem.n == 0, "C13: decreasing the precision failed although the head needs no refill or remainders are available"),
        }
    }
}

/// C13 (bounded): precision change P -> P' -> P between symbols is undone exactly.
#[cfg_attr(kani, kani::proof)]
#[cfg_attr(kani, kani::unwind(10))]
#[cfg_attr(kani, kani::solver(kissat))]
pub fn precision_change_u8_u16() {
    type A = SnapStack<u8, 4>;
    let s0 = u8_u16_p3::any_state();
    let c = u8_u16_p3::mk(&s0);
    let c5 = match c.change_precision::<5>() { Ok(c) => c, Err(_) => return };
    if group(2) == 1 { assert!(u8_u16_p5::inv(&u8_u16_p5::obs(&c5)), "C13/C10/C20: head invariant lost by a precision change (the next decode may overflow)"); return; }
    let c3 = match c5.change_precision::<3>() { Ok(c) => c, Err(_) => { assert!(false, "C13: undoing a precision change failed"); return; } };
    let s1 = u8_u16_p3::obs(&c3);
    assert!(s1.ch == s0.ch && s1.r == s0.r && s1.comp.n == s0.comp.n && s1.rem.n == s0.rem.n, "C13/C14: precision change P->P'->P is not the identity");
    let mut i = 0; while i < s0.rem.n { assert!(s1.rem.buf[i] == s0.rem.buf[i], "C13: precision change altered remainders"); i += 1; }
}
