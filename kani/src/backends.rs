//! Word sources and sinks (src/backends.rs): every provided backend against the ghost
//! stack/queue contract of DESIGN §4 (C17), and the Cursor position invariant (C20).
use crate::cover;
use crate::kx::*;
use constriction::backends::*;
use constriction::{Pos, Queue, Seek, Stack};

const N: usize = 4;

fn any_buf() -> ([u8; N], usize, usize) {
    let arr = any_arr::<u8, N>();
    let len: usize = any(); let pos: usize = any();
    assume(len <= N);
    (arr, len, pos)
}

/// C17: Cursor::new_at_pos accepts exactly pos <= len; the other constructors start at 0 / len.
#[cfg_attr(kani, kani::proof)]
#[cfg_attr(kani, kani::unwind(6))]
pub fn cursor_constructors() {
    let (arr, len, pos) = any_buf();
    let r = Cursor::<u8, &[u8]>::new_at_pos(&arr[..len], pos);
    match r {
        Ok(c) => { assert!(pos <= len, "C17/C20: Cursor::new_at_pos accepted a position beyond the buffer"); assert!(Pos::pos(&c) == pos, "C17: pos() differs from the position the cursor was created at"); }
        Err(()) => assert!(pos > len, "C17: Cursor::new_at_pos refused a valid position"),
    }
    let mut m = arr;
    let r = Cursor::<u8, &mut [u8]>::new_at_pos_mut(&mut m[..len], pos);
    match r {
        Ok(c) => { assert!(pos <= len, "C17/C20: Cursor::new_at_pos_mut accepted a position beyond the buffer"); assert!(Pos::pos(&c) == pos, "C17: pos() differs"); }
        Err(()) => assert!(pos > len, "C17: Cursor::new_at_pos_mut refused a valid position"),
    }
    assert!(Pos::pos(&Cursor::<u8, &[u8]>::new_at_write_beginning(&arr[..len])) == 0, "C17: new_at_write_beginning must start at 0");
    assert!(Pos::pos(&Cursor::<u8, &[u8]>::new_at_write_end(&arr[..len])) == len, "C17: new_at_write_end must start at len");
    let mut m2 = arr;
    assert!(Pos::pos(&Cursor::<u8, &mut [u8]>::new_at_write_end_mut(&mut m2[..len])) == len, "C17: new_at_write_end_mut must start at len");
}

/// C17: stack-semantics read of a Cursor: pops buf[pos-1]; after the first None every read is
/// None; remaining() == number of reads that will succeed; reads never modify the buffer.
#[cfg_attr(kani, kani::proof)]
#[cfg_attr(kani, kani::unwind(6))]
pub fn cursor_stack_read() {
    let (arr, len, pos) = any_buf();
    assume(pos <= len);
    let mut c = Cursor::<u8, &[u8]>::new_at_pos(&arr[..len], pos).unwrap();
    let rem = BoundedReadWords::<u8, Stack>::remaining(&c);
    assert!(rem == pos, "C17: stack remaining() must equal the number of words below the cursor");
    assert!(ReadWords::<u8, Stack>::maybe_exhausted(&c) == (pos == 0), "C17: stack maybe_exhausted wrong");
    assert!(BoundedReadWords::<u8, Stack>::is_exhausted(&c) == (pos == 0), "C17: stack is_exhausted wrong");
    let r = ReadWords::<u8, Stack>::read(&mut c).unwrap();
    if pos == 0 {
        assert!(r.is_none(), "C17: stack read at the bottom must be None");
        assert!(ReadWords::<u8, Stack>::read(&mut c).unwrap().is_none(), "C17: end-of-data must be sticky");
        assert!(Pos::pos(&c) == 0, "C17: failed read moved the cursor");
    } else {
        assert!(r == Some(arr[pos - 1]), "C17: stack read must return the word just below the cursor");
        assert!(Pos::pos(&c) == pos - 1, "C17: stack read must move the cursor down by one");
        assert!(BoundedReadWords::<u8, Stack>::remaining(&c) == rem - 1, "C17: remaining must decrease by one per successful read");
    }
}

/// C17: queue-semantics read of a Cursor.
#[cfg_attr(kani, kani::proof)]
#[cfg_attr(kani, kani::unwind(6))]
pub fn cursor_queue_read() {
    let (arr, len, pos) = any_buf();
    assume(pos <= len);
    let mut c = Cursor::<u8, &[u8]>::new_at_pos(&arr[..len], pos).unwrap();
    let rem = BoundedReadWords::<u8, Queue>::remaining(&c);
    assert!(rem == len - pos, "C17: queue remaining() must equal the number of words from the cursor to the end");
    assert!(ReadWords::<u8, Queue>::maybe_exhausted(&c) == (pos == len), "C17: queue maybe_exhausted wrong");
    let r = ReadWords::<u8, Queue>::read(&mut c).unwrap();
    if pos == len {
        assert!(r.is_none(), "C17: queue read at the end must be None");
        assert!(ReadWords::<u8, Queue>::read(&mut c).unwrap().is_none(), "C17: end-of-data must be sticky");
        assert!(Pos::pos(&c) == len, "C17: failed read moved the cursor");
    } else {
        assert!(r == Some(arr[pos]), "C17: queue read must return the word at the cursor");
        assert!(Pos::pos(&c) == pos + 1, "C17: queue read must advance the cursor by one");
        assert!(BoundedReadWords::<u8, Queue>::remaining(&c) == rem - 1, "C17: remaining must decrease by one per successful read");
    }
}

/// C17: write on a Cursor; space_left() == number of writes that will succeed; a refused write
/// changes nothing; a successful one changes exactly buf[pos].
#[cfg_attr(kani, kani::proof)]
#[cfg_attr(kani, kani::unwind(6))]
pub fn cursor_write() {
    let (arr, len, pos) = any_buf();
    assume(pos <= len);
    let mut m = arr;
    let w: u8 = any();
    {
        let mut c = Cursor::<u8, &mut [u8]>::new_at_pos_mut(&mut m[..len], pos).unwrap();
        let sl = BoundedWriteWords::<u8>::space_left(&c);
        assert!(sl == len - pos, "C17: space_left must equal the number of writes that will succeed");
        assert!(BoundedWriteWords::<u8>::is_full(&c) == (pos == len), "C17: is_full wrong");
        let r = WriteWords::<u8>::write(&mut c, w);
        if pos == len {
            assert!(r.is_err(), "C17: write into a full cursor must fail");
            assert!(Pos::pos(&c) == pos, "C17/C09: failed write moved the cursor (a coder on this backend is no longer intact after a refused write)");
        } else {
            assert!(r.is_ok(), "C17: write with space left must succeed");
            assert!(Pos::pos(&c) == pos + 1, "C17: write must advance the cursor");
            assert!(BoundedWriteWords::<u8>::space_left(&c) == sl - 1, "C17: space_left must decrease by one per write");
        }
    }
    let mut i = 0;
    while i < N { if i == pos && pos < len { assert!(m[i] == w, "C17: written word not stored at the cursor"); } else { assert!(m[i] == arr[i], "C17: write changed another word"); } i += 1; }
}

/// C17: seek/pos on a Cursor: positions <= len accepted and reported back, others refused
/// without moving.
#[cfg_attr(kani, kani::proof)]
#[cfg_attr(kani, kani::unwind(6))]
pub fn cursor_seek() {
    let (arr, len, pos) = any_buf();
    assume(pos <= len);
    let mut c = Cursor::<u8, &[u8]>::new_at_pos(&arr[..len], pos).unwrap();
    let target: usize = any();
    let r = c.seek(target);
    if target <= len { assert!(r.is_ok() && Pos::pos(&c) == target, "C17/C07: seek to a valid position must succeed and be reported by pos()"); }
    else { assert!(r.is_err() && Pos::pos(&c) == pos, "C17/C07: out-of-range seek must be refused and leave the cursor in place"); }
    // Reverse delegates pos/seek unchanged
    let mut rc = Reverse(Cursor::<u8, &[u8]>::new_at_pos(&arr[..len], pos).unwrap());
    let r = rc.seek(target);
    if target <= len { assert!(r.is_ok() && rc.pos() == target, "C17/C07: Reverse seek/pos must delegate"); } else { assert!(r.is_err() && rc.pos() == pos, "C17/C07: Reverse out-of-range seek must be refused"); }
}

/// C17: Reverse<Cursor> as a sink: writes go downwards; space_left == number of writes that will
/// succeed (== pos); refused write changes nothing.
#[cfg_attr(kani, kani::proof)]
#[cfg_attr(kani, kani::unwind(6))]
pub fn reverse_cursor_write() {
    let (arr, len, pos) = any_buf();
    assume(pos <= len);
    let mut m = arr;
    let w: u8 = any();
    {
        let mut rc = Reverse(Cursor::<u8, &mut [u8]>::new_at_pos_mut(&mut m[..len], pos).unwrap());
        let sl = BoundedWriteWords::<u8>::space_left(&rc);
        assert!(sl == pos, "C17: Reverse<Cursor>::space_left must equal the number of writes that will succeed");
        assert!(BoundedWriteWords::<u8>::is_full(&rc) == (pos == 0), "C17: Reverse<Cursor>::is_full wrong");
        let r = WriteWords::<u8>::write(&mut rc, w);
        if pos == 0 { assert!(r.is_err() && rc.pos() == 0, "C17/C09: write into a full reversed cursor must fail and not move (a coder on this backend must stay intact after a refused write)"); }
        else { assert!(r.is_ok() && rc.pos() == pos - 1, "C17: reversed write must move the cursor down by one"); }
    }
    let mut i = 0;
    while i < N { if pos > 0 && i == pos - 1 { assert!(m[i] == w, "C17: reversed write must store just below the cursor"); } else { assert!(m[i] == arr[i], "C17: reversed write changed another word"); } i += 1; }
}

/// C17: Reverse swaps the read semantics (queue read of Reverse == stack read of the inner and
/// vice versa) and keeps remaining()/exhaustion consistent with the reads that will succeed.
#[cfg_attr(kani, kani::proof)]
#[cfg_attr(kani, kani::unwind(6))]
pub fn reverse_cursor_read() {
    let (arr, len, pos) = any_buf();
    assume(pos <= len);
    let mut a = Reverse(Cursor::<u8, &[u8]>::new_at_pos(&arr[..len], pos).unwrap());
    assert!(BoundedReadWords::<u8, Queue>::remaining(&a) == pos, "C17: Reverse queue remaining must be the inner stack remaining");
    assert!(BoundedReadWords::<u8, Stack>::remaining(&a) == len - pos, "C17: Reverse stack remaining must be the inner queue remaining");
    assert!(ReadWords::<u8, Queue>::maybe_exhausted(&a) == (pos == 0), "C17: Reverse queue exhaustion wrong");
    assert!(ReadWords::<u8, Stack>::maybe_exhausted(&a) == (pos == len), "C17: Reverse stack exhaustion wrong");
    let q = ReadWords::<u8, Queue>::read(&mut a).unwrap();
    assert!(q == if pos == 0 { None } else { Some(arr[pos - 1]) }, "C17: queue read of Reverse must be the inner stack read");
    let mut b = Reverse(Cursor::<u8, &[u8]>::new_at_pos(&arr[..len], pos).unwrap());
    let s = ReadWords::<u8, Stack>::read(&mut b).unwrap();
    assert!(s == if pos == len { None } else { Some(arr[pos]) }, "C17: stack read of Reverse must be the inner queue read");
}

/// C17: reversing a cursor in place is observationally a no-op: the reversed cursor read with
/// the swapped semantics / written to yields what the original would have; twice = identity.
#[cfg_attr(kani, kani::proof)]
#[cfg_attr(kani, kani::unwind(6))]
pub fn cursor_into_reversed() {
    let (arr, len, pos) = any_buf();
    assume(pos <= len);
    let mut m1 = arr; let mut m2 = arr; let mut m3 = arr; let mut m4 = arr; let mut m5 = arr;
    // queue read before == queue read of Reverse after
    let mut c = Cursor::<u8, &mut [u8]>::new_at_pos_mut(&mut m1[..len], pos).unwrap();
    let before = ReadWords::<u8, Queue>::read(&mut c).unwrap();
    let mut r = Cursor::<u8, &mut [u8]>::new_at_pos_mut(&mut m2[..len], pos).unwrap().into_reversed();
    assert!(BoundedReadWords::<u8, Queue>::remaining(&r) == len - pos, "C17: in-place reversal changed the number of remaining words");
    let after = ReadWords::<u8, Queue>::read(&mut r).unwrap();
    assert!(before == after, "C17: in-place reversal changed what a queue read returns");
    // stack read before == stack read of Reverse after
    let mut c = Cursor::<u8, &mut [u8]>::new_at_pos_mut(&mut m3[..len], pos).unwrap();
    let before = ReadWords::<u8, Stack>::read(&mut c).unwrap();
    let mut r = Cursor::<u8, &mut [u8]>::new_at_pos_mut(&mut m4[..len], pos).unwrap().into_reversed();
    let after = ReadWords::<u8, Stack>::read(&mut r).unwrap();
    assert!(before == after, "C17: in-place reversal changed what a stack read returns");
    // reversing twice restores buffer and position
    let c2 = Cursor::<u8, &mut [u8]>::new_at_pos_mut(&mut m5[..len], pos).unwrap().into_reversed().into_reversed();
    assert!(Pos::pos(&c2) == pos, "C17: reversing twice changed the position");
    let (b, _) = c2.into_buf_and_pos();
    let mut i = 0; while i < len { assert!(b[i] == arr[i], "C17: reversing twice changed the buffer"); i += 1; }
}

/// C17: write after in-place reversal lands at the same logical place (followed by the same
/// read it is a LIFO pair).
#[cfg_attr(kani, kani::proof)]
#[cfg_attr(kani, kani::unwind(6))]
pub fn cursor_into_reversed_write() {
    let (arr, len, pos) = any_buf();
    assume(pos <= len);
    let mut m = arr; let w: u8 = any();
    let mut r = Cursor::<u8, &mut [u8]>::new_at_pos_mut(&mut m[..len], pos).unwrap().into_reversed();
    // original cursor: write succeeds iff pos < len
    let sl = BoundedWriteWords::<u8>::space_left(&r);
    let res = WriteWords::<u8>::write(&mut r, w);
    assert!(res.is_ok() == (pos < len), "C17: in-place reversal changed whether a write succeeds");
    assert!(sl == len - pos, "C17: in-place reversal changed the reported free space");
    if res.is_ok() {
        let back = r.into_reversed();
        assert!(Pos::pos(&back) == pos + 1, "C17: write after reversal did not advance the logical position");
        let (b, _) = back.into_buf_and_pos();
        let mut i = 0; while i < len { assert!(b[i] == if i == pos { w } else { arr[i] }, "C17: write after reversal landed at the wrong logical place"); i += 1; }
    }
}

/// C17: Vec<Word> as a stack backend.
#[cfg_attr(kani, kani::proof)]
#[cfg_attr(kani, kani::unwind(6))]
pub fn vec_backend() {
    let arr = any_arr::<u8, 3>();
    let len: usize = any(); assume(len <= 3);
    let mut v: Vec<u8> = Vec::with_capacity(4);
    let mut i = 0; while i < len { v.push(arr[i]); i += 1; }
    assert!(BoundedReadWords::<u8, Stack>::remaining(&v) == len && Pos::pos(&v) == len, "C17/C07: Vec remaining/pos must be its length");
    assert!(ReadWords::<u8, Stack>::maybe_exhausted(&v) == (len == 0), "C17: Vec maybe_exhausted wrong");
    assert!(!WriteWords::<u8>::maybe_full(&v), "C17: Vec never full");
    let w: u8 = any();
    WriteWords::<u8>::write(&mut v, w).unwrap();
    assert!(v.len() == len + 1 && v[len] == w, "C17: Vec write must append");
    assert!(ReadWords::<u8, Stack>::read(&mut v).unwrap() == Some(w), "C17: Vec read must pop the last written word");
    let r = ReadWords::<u8, Stack>::read(&mut v).unwrap();
    assert!(r == if len == 0 { None } else { Some(arr[len - 1]) }, "C17: Vec read order must be LIFO");
    if len == 0 { assert!(ReadWords::<u8, Stack>::read(&mut v).unwrap().is_none(), "C17: Vec end-of-data must be sticky"); }
    let cur = v.len();
    let target: usize = any();
    let s = Seek::seek(&mut v, target);
    if target <= cur { assert!(s.is_ok() && v.len() == target, "C17/C07: Vec seek must truncate to the position"); let mut i = 0; while i < target { assert!(v[i] == arr[i], "C17/C07: Vec seek changed surviving words"); i += 1; } }
    else { assert!(s.is_err() && v.len() == cur, "C17/C07: Vec seek beyond the end must be refused"); }
}

/// C17 (bounded): SmallVec as a stack backend, across the inline/heap switch.
#[cfg_attr(kani, kani::proof)]
#[cfg_attr(kani, kani::unwind(6))]
pub fn smallvec_backend() {
    use smallvec::SmallVec;
    let arr = any_arr::<u8, 3>();
    let len: usize = any(); assume(len <= 3);
    let mut v: SmallVec<[u8; 2]> = SmallVec::new();
    let mut i = 0; while i < len { WriteWords::<u8>::write(&mut v, arr[i]).unwrap(); i += 1; }
    assert!(BoundedReadWords::<u8, Stack>::remaining(&v) == len && Pos::pos(&v) == len, "C17: SmallVec remaining/pos must be its length");
    let r = ReadWords::<u8, Stack>::read(&mut v).unwrap();
    assert!(r == if len == 0 { None } else { Some(arr[len - 1]) }, "C17: SmallVec read order must be LIFO");
    let cur = v.len(); let target: usize = any();
    let s = Seek::seek(&mut v, target);
    if target <= cur { assert!(s.is_ok() && v.len() == target, "C17: SmallVec seek must truncate"); } else { assert!(s.is_err() && v.len() == cur, "C17: SmallVec seek beyond the end must be refused"); }
}

/// C17 (bounded): iterator and callback adapters.
#[cfg_attr(kani, kani::proof)]
#[cfg_attr(kani, kani::unwind(6))]
pub fn adapters() {
    let arr = any_arr::<u8, 3>();
    let mut it = InfallibleIteratorReadWords::new::<_, u8, ()>(arr.iter().map(|w| Ok(*w)));
    // InfallibleIteratorReadWords::new is declared over Result items; use the fallible one for reads
    let mut fit = FallibleIteratorReadWords::new(arr.iter().map(|w| Result::<u8, ()>::Ok(*w)));
    assert!(BoundedReadWords::<u8, Queue>::remaining(&fit) == 3, "C17: iterator adapter remaining wrong");
    assert!(ReadWords::<u8, Queue>::read(&mut fit) == Ok(Some(arr[0])), "C17: iterator adapter must yield in order");
    assert!(BoundedReadWords::<u8, Queue>::remaining(&fit) == 2, "C17: iterator adapter remaining must decrease");
    let _ = ReadWords::<u8, Queue>::read(&mut fit); let _ = ReadWords::<u8, Queue>::read(&mut fit);
    assert!(ReadWords::<u8, Queue>::read(&mut fit) == Ok(None), "C17: iterator adapter end-of-data");
    assert!(ReadWords::<u8, Queue>::read(&mut fit) == Ok(None), "C17: iterator adapter end-of-data must be sticky");
    // a source that is NOT fused (yields again after its first None): end-of-data must still be sticky
    struct Flaky { k: u8 }
    impl Iterator for Flaky { type Item = Result<u8, ()>; fn next(&mut self) -> Option<Self::Item> { self.k += 1; if self.k % 2 == 1 { Some(Ok(self.k)) } else { None } } }
    let mut nf = InfallibleIteratorReadWords::new::<_, u8, ()>(Flaky { k: 0 });
    assert!(matches!(ReadWords::<Result<u8, ()>, Queue>::read(&mut nf), Ok(Some(Ok(1)))), "C17: iterator adapter must yield the first item");
    assert!(matches!(ReadWords::<Result<u8, ()>, Queue>::read(&mut nf), Ok(None)), "C17: iterator adapter end-of-data");
    assert!(matches!(ReadWords::<Result<u8, ()>, Queue>::read(&mut nf), Ok(None)), "C17: end-of-data must be sticky also over a non-fused iterator");
    let mut ff = FallibleIteratorReadWords::new(Flaky { k: 0 });
    assert!(ReadWords::<u8, Queue>::read(&mut ff) == Ok(Some(1)), "C17: fallible iterator adapter must yield the first item");
    assert!(ReadWords::<u8, Queue>::read(&mut ff) == Ok(None), "C17: fallible iterator adapter end-of-data");
    assert!(ReadWords::<u8, Queue>::read(&mut ff) == Ok(None), "C17: end-of-data must be sticky also over a non-fused iterator (fallible adapter)");
    let mut got = [0u8; 2]; let mut n = 0usize;
    {
        let mut cb = InfallibleCallbackWriteWords::new(|w: u8| { got[n] = w; n += 1; });
        WriteWords::<u8>::write(&mut cb, arr[0]).unwrap();
        WriteWords::<u8>::write(&mut cb, arr[1]).unwrap();
    }
    assert!(n == 2 && got[0] == arr[0] && got[1] == arr[1], "C17: callback adapter must forward every word in order");
    let mut cb = FallibleCallbackWriteWords::new(|w: u8| if w == 0 { Err(()) } else { Ok(()) });
    assert!(WriteWords::<u8>::write(&mut cb, arr[2]).is_err() == (arr[2] == 0), "C17: fallible callback adapter must forward the callback's result");
}

/// C20: no sequence of safe calls on a Cursor over a Vec reaches the unchecked index out of
/// bounds: the accessor buf_mut() lets safe code shrink the buffer below `pos`.
#[cfg_attr(kani, kani::proof)]
#[cfg_attr(kani, kani::unwind(6))]
pub fn cursor_buf_mut_then_read() {
    let mut c = Cursor::new_at_write_end(vec![1u8, 2, 3]);
    let k: usize = any(); assume(k <= 3);
    c.buf_mut().truncate(k); // safe API
    let r = <Cursor<u8, Vec<u8>> as ReadWords<u8, Stack>>::read(&mut c);
    let _ = r;
}

/// C17: turning a buffer into a reader puts the cursor where the semantics says the data starts:
/// stack readers start at the write end (last word first), queue readers at the beginning; the
/// borrowed variants behave the same and leave the buffer untouched.
#[cfg_attr(kani, kani::proof)]
#[cfg_attr(kani, kani::unwind(6))]
pub fn into_and_as_read_words() {
    use constriction::backends::{AsReadWords, IntoReadWords};
    let d = any_arr::<u8, 3>();
    let n: usize = any(); assume(n <= 3);
    let mut v: Vec<u8> = Vec::with_capacity(4);
    let mut i = 0; while i < n { v.push(d[i]); i += 1; }
    let grp = group(4);
    if grp == 0 {
        let mut r = IntoReadWords::<u8, Stack>::into_read_words(v);
        let mut i = n; while i > 0 { assert!(matches!(ReadWords::<u8, Stack>::read(&mut r), Ok(Some(x)) if x == d[i - 1]), "C17: stack reader made from a buffer must return its words last first"); i -= 1; }
        assert!(matches!(ReadWords::<u8, Stack>::read(&mut r), Ok(None)), "C17: stack reader made from a buffer has extra words");
    } else if grp == 1 {
        let mut r = IntoReadWords::<u8, Queue>::into_read_words(v);
        let mut i = 0; while i < n { assert!(matches!(ReadWords::<u8, Queue>::read(&mut r), Ok(Some(x)) if x == d[i]), "C17: queue reader made from a buffer must return its words in order"); i += 1; }
        assert!(matches!(ReadWords::<u8, Queue>::read(&mut r), Ok(None)), "C17: queue reader made from a buffer has extra words");
    } else if grp == 2 {
        {
            let mut r = AsReadWords::<u8, Stack>::as_read_words(&v);
            assert!(BoundedReadWords::<u8, Stack>::remaining(&r) == n, "C17: borrowed stack reader reports the wrong number of remaining words");
            if n > 0 { assert!(matches!(ReadWords::<u8, Stack>::read(&mut r), Ok(Some(x)) if x == d[n - 1]), "C17: borrowed stack reader must start at the last word"); }
        }
        assert!(v.len() == n, "C17: borrowing a reader changed the buffer");
    } else {
        let mut r = AsReadWords::<u8, Queue>::as_read_words(&v);
        assert!(BoundedReadWords::<u8, Queue>::remaining(&r) == n, "C17: borrowed queue reader reports the wrong number of remaining words");
        if n > 0 { assert!(matches!(ReadWords::<u8, Queue>::read(&mut r), Ok(Some(x)) if x == d[0]), "C17: borrowed queue reader must start at the first word"); }
    }
}
