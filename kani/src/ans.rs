//! ANS coder (src/stream/stack.rs): single-step contracts on the real code.
//! Obligations: C01 (pop∘push = id), C04 (push∘pop = id), C06 (step == published rANS
//! step), C09 (error paths leave the coder intact), C10 (decode is total, symbol from the
//! model), C12 (per-call word count and potential inequality).
use crate::kx::*;
use crate::cover;
use crate::stubs::*;
use constriction::stream::stack::AnsCoder;
use constriction::stream::{Decode, Encode};
use constriction::{CoderError, DefaultEncoderFrontendError};

/// Layer-B spec of one rANS push (Duda's streaming rANS, word-wise renormalisation),
/// written in wide arithmetic, independent of the implementation's bookkeeping.
/// Returns (emitted word if any, new state).
pub fn spec_push(state: u128, cum: u128, p: u128, prec: u32, wb: u32, sb: u32) -> (Option<u128>, u128) {
    let mut s = state;
    let mut w = None;
    if (s >> (sb - prec)) >= p {
        w = Some(s & ((1u128 << wb) - 1));
        s >>= wb;
    }
    (w, ((s / p) << prec) + cum + (s % p))
}
/// Layer-B spec of one rANS pop given the entry that contains the quantile.
/// Returns (state before refill, whether a refill is due).
pub fn spec_pop(state: u128, cum: u128, p: u128, prec: u32, wb: u32, sb: u32) -> (u128, bool) {
    let q = state & ((1u128 << prec) - 1);
    let s = (state >> prec) * p + (q - cum);
    (s, s < (1u128 << (sb - wb)))
}

macro_rules! ans_harnesses {
    ($modname:ident, $W:ty, $S:ty, $Pr:ty, $P:expr, $solver:ident) => {
        pub mod $modname {
            use super::*;
            type W = $W; type S = $S; type Pr = $Pr;
            const P: usize = $P;
            const WB: u32 = <$W>::BITS; const SB: u32 = <$S>::BITS;
            type Bulk = ArrStack<W, 3>;
            type Coder = AnsCoder<W, S, Bulk>;

            /// any coder satisfying the documented struct invariant (stack.rs:126)
            fn any_coder() -> (Bulk, S) {
                let bulk = Bulk::any_upto(2);
                let state: S = any();
                assume(bulk.n == 0 || state >= (1 as S) << (SB - WB));
                (bulk, state)
            }
            fn same_live(a: &Bulk, b: &Bulk) -> bool {
                if a.n != b.n { return false; }
                let mut i = 0; while i < a.n { if a.buf[i] != b.buf[i] { return false; } i += 1; }
                true
            }

            /// C01: encode then decode with the same model returns the symbol and restores
            /// (bulk, state) exactly; the struct invariant is re-established in between.
            #[cfg_attr(kani, kani::proof)]
            #[cfg_attr(kani, kani::unwind(5))]
            #[cfg_attr(kani, kani::solver($solver))]
            pub fn rt_push_pop() {
                let (bulk, state) = any_coder();
                let e = any_entry::<Pr, P>(false);
                let mut c = Coder::from_raw_parts(bulk, state);
                let r = c.encode_symbol(e.sym, e);
                assert!(r.is_ok(), "C01: encode of an in-support symbol on a non-full backend fails");
                let (b1, s1) = c.into_raw_parts();
                assert!(b1.n == 0 || s1 >= (1 as S) << (SB - WB), "C01: invariant lost after encode");
                cover!(b1.n > bulk.n, "flush taken");
                cover!(b1.n == bulk.n, "flush not taken");
                cover!(e.prob.get() == 1, "probability of one quantum");
                let mut c = Coder::from_raw_parts(b1, s1);
                match c.decode_symbol(e) {
                    Ok(s) => assert!(s == e.sym, "C01: decoded symbol differs from the encoded one"),
                    Err(_) => assert!(false, "C01: decode failed"),
                }
                let (b2, s2) = c.into_raw_parts();
                assert!(s2 == state, "C01: state not restored by decode(encode)");
                assert!(same_live(&b2, &bulk), "C01: bulk not restored by decode(encode)");
            }

            /// C06: the encode step is the published rANS step (layer-B spec), flushes the
            /// low word, and leaves the words below untouched.
            #[cfg_attr(kani, kani::proof)]
            #[cfg_attr(kani, kani::unwind(5))]
            #[cfg_attr(kani, kani::solver($solver))]
            pub fn conf_encode() {
                let (bulk, state) = any_coder();
                let e = any_entry::<Pr, P>(false);
                let mut c = Coder::from_raw_parts(bulk, state);
                let r = c.encode_symbol(e.sym, e);
                assert!(r.is_ok(), "C06: encode of an in-support symbol on a non-full backend fails");
                let (b1, s1) = c.into_raw_parts();
                let (w, s_spec) = spec_push(state as u128, e.cum as u128, e.prob.get() as u128, P as u32, WB, SB);
                assert!(s1 as u128 == s_spec, "C06: state after encode differs from the rANS spec");
                match w {
                    Some(w) => {
                        assert!(b1.n == bulk.n + 1, "C06: flush must push exactly one word");
                        assert!(b1.buf[bulk.n] as u128 == w, "C06: flushed word differs from the rANS spec");
                    }
                    None => assert!(b1.n == bulk.n, "C06: no flush must push nothing"),
                }
                let mut i = 0; while i < bulk.n { assert!(b1.buf[i] == bulk.buf[i], "C06: words below the top changed"); i += 1; }
                cover!(w.is_some(), "flush taken");
                cover!(w.is_none(), "flush not taken");
            }

            /// C06: the decode step is the published rANS pop; refill iff below threshold and
            /// a word is available; refilled word is the top of the bulk.
            #[cfg_attr(kani, kani::proof)]
            #[cfg_attr(kani, kani::unwind(5))]
            #[cfg_attr(kani, kani::solver($solver))]
            pub fn conf_decode() {
                let (bulk, state) = any_coder();
                let e = any_entry::<Pr, P>(false);
                let q = (state as u128) & ((1u128 << P) - 1);
                assume(q >= e.cum as u128 && q < e.cum as u128 + e.prob.get() as u128);
                let mut c = Coder::from_raw_parts(bulk, state);
                let sym = match c.decode_symbol(e) { Ok(s) => s, Err(_) => { assert!(false, "C06: ANS decode must not fail"); return; } };
                assert!(sym == e.sym, "C06: quantile must be state mod 2^P");
                let (b1, s1) = c.into_raw_parts();
                let (s_spec, refill) = spec_pop(state as u128, e.cum as u128, e.prob.get() as u128, P as u32, WB, SB);
                if refill && bulk.n > 0 {
                    assert!(b1.n == bulk.n - 1, "C06: refill must pop one word");
                    assert!(s1 as u128 == (s_spec << WB) | bulk.buf[bulk.n - 1] as u128, "C06: refilled state differs from the rANS spec");
                } else {
                    assert!(b1.n == bulk.n && s1 as u128 == s_spec, "C06: popped state differs from the rANS spec");
                }
                cover!(refill && bulk.n > 0, "refill taken");
                cover!(refill && bulk.n == 0, "refill wanted on empty bulk");
                cover!(!refill, "no refill");
            }

            /// C04: decode from any invariant state, then encode the decoded symbol back with
            /// the same model: (bulk, state) is restored exactly (bits-back / surjectivity).
            #[cfg_attr(kani, kani::proof)]
            #[cfg_attr(kani, kani::unwind(5))]
            #[cfg_attr(kani, kani::solver($solver))]
            pub fn rt_pop_push() {
                let (bulk, state) = any_coder();
                let e = any_entry::<Pr, P>(false);
                let mut c = Coder::from_raw_parts(bulk, state);
                let sym = match c.decode_symbol(e) { Ok(s) => s, Err(_) => { assert!(false, "C04: ANS decode must not fail"); return; } };
                assume(sym == e.sym); // the quantile fell into the modelled entry
                let (b1, s1) = c.into_raw_parts();
                assert!(b1.n == 0 || s1 >= (1 as S) << (SB - WB), "C04: invariant lost after decode");
                cover!(b1.n < bulk.n, "refill taken");
                cover!(b1.n == bulk.n, "no refill");
                let mut c = Coder::from_raw_parts(b1, s1);
                assert!(c.encode_symbol(e.sym, e).is_ok(), "C04: re-encode failed");
                let (b2, s2) = c.into_raw_parts();
                assert!(s2 == state, "C04: state not restored by encode(decode)");
                assert!(same_live(&b2, &bulk), "C04: bulk not restored by encode(decode)");
            }

            /// C09: impossible symbol => Err(ImpossibleSymbol), coder untouched; failing
            /// backend => Err(Backend), coder untouched.
            #[cfg_attr(kani, kani::proof)]
            #[cfg_attr(kani, kani::unwind(5))]
            #[cfg_attr(kani, kani::solver($solver))]
            pub fn encode_errors() {
                let (mut bulk, state) = any_coder();
                bulk.cap = any(); assume(bulk.cap >= bulk.n && bulk.cap <= 3);
                let e = any_entry::<Pr, P>(false);
                let sym: u16 = any();
                let mut c = Coder::from_raw_parts(bulk, state);
                let r = c.encode_symbol(sym, e);
                let (b1, s1) = c.into_raw_parts();
                let flush = ((state as u128) >> (SB - P as u32)) >= e.prob.get() as u128;
                if sym != e.sym {
                    assert!(matches!(r, Err(CoderError::Frontend(DefaultEncoderFrontendError::ImpossibleSymbol))), "C09: impossible symbol not rejected");
                    assert!(s1 == state && b1 == bulk, "C09: coder changed by a rejected symbol");
                } else if flush && bulk.n >= bulk.cap {
                    assert!(matches!(r, Err(CoderError::Backend(()))), "C09: backend failure not reported");
                    assert!(s1 == state && b1 == bulk, "C09/C01: coder changed by a failed write (what was encoded before no longer decodes)");
                } else {
                    assert!(r.is_ok(), "C09: spurious error");
                }
                cover!(sym != e.sym, "impossible symbol");
                cover!(sym == e.sym && flush && bulk.n >= bulk.cap, "backend full at flush");
            }

            /// C10: decoding with p == 2^P allowed and from *any* state (invariant or not):
            /// no panic/overflow; symbol comes from the model.
            #[cfg_attr(kani, kani::proof)]
            #[cfg_attr(kani, kani::unwind(5))]
            #[cfg_attr(kani, kani::solver($solver))]
            pub fn decode_total() {
                let bulk = Bulk::any_upto(2);
                let state: S = any();
                let e = any_entry::<Pr, P>(true);
                let mut c = Coder::from_raw_parts(bulk, state);
                match c.decode_symbol(e) {
                    Ok(s) => assert!(s == e.sym || s == !e.sym, "C10: symbol outside the model"),
                    Err(_) => assert!(false, "C10/C04: ANS decode must not fail"),
                }
            }

            /// C12: potential inequality  Phi(after)*p*2^k <= Phi(before)*2^P*(2^k+1)
            /// with Phi = max(state, 2^(sb-wb)) * 2^(wb*|bulk|), evaluated on the real step.
            #[cfg_attr(kani, kani::proof)]
            #[cfg_attr(kani, kani::unwind(5))]
            #[cfg_attr(kani, kani::solver($solver))]
            pub fn potential() {
                let (bulk, state) = any_coder();
                let e = any_entry::<Pr, P>(false);
                let mut c = Coder::from_raw_parts(bulk, state);
                if c.encode_symbol(e.sym, e).is_err() { return; }
                let (b1, s1) = c.into_raw_parts();
                assert!(b1.n <= bulk.n + 1, "C12: more than one word per symbol");
                cover!(b1.n == bulk.n + 1, "flush taken");
                cover!((s1 as u128) < (1u128 << (SB - WB)), "small state");
                let th: u128 = 1u128 << (SB - WB);
                let k: u128 = 1u128 << (SB - WB - P as u32);
                let h0 = core::cmp::max(state as u128, th);
                let h1 = core::cmp::max(s1 as u128, th);
                let p = e.prob.get() as u128;
                // both sides scaled by 2^(wb*bulk.n); after a flush the new side carries 2^wb more
                let lhs = if b1.n > bulk.n { h1 * p * k << WB } else { h1 * p * k };
                let rhs = h0 * (1u128 << P) * (k + 1);
                assert!(lhs <= rhs, "C12: potential inequality violated");
            }
        }
    };
}

ans_harnesses!(u8_u16_p8, u8, u16, u8, 8, kissat);
ans_harnesses!(u8_u16_p3, u8, u16, u8, 3, kissat);
ans_harnesses!(u8_u16_p1, u8, u16, u8, 1, kissat);
ans_harnesses!(u8_u16_p5, u8, u16, u8, 5, kissat);
// wider instantiations: only the division-free harnesses (conf_decode, decode_total) are registered
ans_harnesses!(u16_u32_p12, u16, u32, u16, 12, kissat);
ans_harnesses!(u32_u64_p24, u32, u64, u32, 24, kissat);
ans_harnesses!(u32_u64_p32, u32, u64, u32, 32, kissat);
ans_harnesses!(u8_u32_p8, u8, u32, u8, 8, kissat);
